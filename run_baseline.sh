#!/bin/bash
# baseline with the HFSM2_VERIF guard OFF: the repository's own build + ctest (70 doctest cases in one binary)
set -e
cd /repo
cmake -G Ninja -B _build > /dev/null
cmake --build _build -j16
ctest --test-dir _build -j8 --timeout 900 --output-on-failure
