#!/usr/bin/env python3
"""Prototype LLVM-14 textual IR -> C translator (feasibility probe).
Typed-struct flavour: every named/literal LLVM struct becomes a C struct with
identical layout, GEPs become member/array accesses, pointers keep their types."""
import re, sys

# ---------------------------------------------------------------- tokenizer
TOK = re.compile(r'''
    \s+ |
    (?P<str>c?"(?:[^"\\]|\\.)*") |
    (?P<lname>%"(?:[^"\\]|\\.)*"|%[-a-zA-Z$._0-9]+) |
    (?P<gname>@"(?:[^"\\]|\\.)*"|@[-a-zA-Z$._0-9]+) |
    (?P<meta>![-a-zA-Z$._0-9]*(?:\([^)]*\))?) |
    (?P<attr>\#[0-9]+) |
    (?P<num>-?[0-9]+\.[0-9]+(?:e[-+]?[0-9]+)?|0x[KMLHR]?[0-9A-Fa-f]+|-?[0-9]+) |
    (?P<id>[a-zA-Z_][a-zA-Z0-9_.]*) |
    (?P<p><\{|\}>|\.\.\.|[()\[\]{}<>,=*:])
''', re.X)

def tokenize(s):
    out = []; i = 0
    while i < len(s):
        if s[i] == ';': break
        m = TOK.match(s, i)
        if not m: raise SyntaxError("tok: " + s[i:i+40])
        i = m.end()
        if m.lastgroup: out.append((m.lastgroup, m.group(m.lastgroup)))
    return out

# ---------------------------------------------------------------- types
class Ty:
    def __init__(s, k, **kw): s.k = k; s.__dict__.update(kw)
    def __repr__(s):
        if s.k == 'int': return 'i%d' % s.bits
        if s.k == 'ptr': return repr(s.to) + '*'
        if s.k == 'arr': return '[%d x %r]' % (s.n, s.el)
        if s.k == 'named': return s.name
        if s.k == 'struct': return ('<{%s}>' if s.packed else '{%s}') % ','.join(map(repr, s.els))
        return s.k
VOID = Ty('void'); FLOAT = Ty('float'); DOUBLE = Ty('double')
def Int(b): return Ty('int', bits=b)
def Ptr(t): return Ty('ptr', to=t)

class Mod:
    def __init__(s):
        s.named = {}     # name -> Ty(struct) or None (opaque)
        s.cname = {}     # llvm type name -> C identifier
        s.lits = {}      # repr -> C identifier for literal structs
        s.funcs = []; s.decls = {}; s.globals = []
        s.fsig = {}      # @name -> (ret Ty, [param Ty], vararg)
        s.gty = {}       # @name -> Ty of the global VALUE (pointer type is Ptr(that))
        s.addr_taken = set(); s.fdef = {}
        s.defined = set()  # @names defined (not merely declared) in this module -> get PREFIX
M = Mod()
PREFIX = ''

def san(n):
    n = n.lstrip('%@').strip('"')
    return re.sub(r'[^A-Za-z0-9_]', '_', n)

class P:  # token stream parser
    def __init__(s, toks): s.t = toks; s.i = 0
    def peek(s, o=0): return s.t[s.i+o] if s.i+o < len(s.t) else (None, None)
    def next(s): r = s.t[s.i]; s.i += 1; return r
    def accept(s, v):
        if s.peek()[1] == v: s.i += 1; return True
        return False
    def expect(s, v):
        r = s.next()
        if r[1] != v: raise SyntaxError('expected %s got %s in %s' % (v, r, s.t))
    def eof(s): return s.i >= len(s.t)

    def type(s):
        k, v = s.next()
        if k == 'id':
            if re.fullmatch(r'i[0-9]+', v): t = Int(int(v[1:]))
            elif v == 'void': t = VOID
            elif v == 'float': t = FLOAT
            elif v == 'double': t = DOUBLE
            elif v == 'ptr': t = Ptr(Int(8))
            elif v in ('label', 'metadata', 'opaque'): t = Ty(v)
            else: raise SyntaxError('type? ' + v)
        elif k == 'lname': t = Ty('named', name=v)
        elif v == '[':
            n = int(s.next()[1]); s.expect('x'); el = s.type(); s.expect(']'); t = Ty('arr', n=n, el=el)
        elif v in ('{', '<{'):
            close = '}' if v == '{' else '}>'; els = []
            if not s.accept(close):
                while True:
                    els.append(s.type())
                    if s.accept(close): break
                    s.expect(',')
            t = Ty('struct', els=els, packed=(v == '<{'))
        elif v == '<':  # vector - unsupported
            raise SyntaxError('vector type')
        else: raise SyntaxError('type? %s' % v)
        while True:
            if s.accept('*'): t = Ptr(t)
            elif s.peek()[1] == '(' and s.looks_fnty():
                s.next(); ps = []; va = False
                if not s.accept(')'):
                    while True:
                        if s.accept('...'): va = True
                        else: ps.append(s.type())
                        if s.accept(')'): break
                        s.expect(',')
                t = Ty('fn', ret=t, ps=ps, va=va)
            else: break
        return t
    def looks_fnty(s):
        return True

# ---------------------------------------------------------------- layout
def resolve(t):
    while t.k == 'named':
        t = M.named[t.name]
        if t is None: raise KeyError('opaque')
    return t
def align_of(t):
    t0 = t; t = resolve(t)
    if t.k == 'int': return min(8, max(1, 1 << ((t.bits+7)//8 - 1).bit_length()))
    if t.k == 'float': return 4
    if t.k in ('double', 'ptr'): return 8
    if t.k == 'arr': return align_of(t.el)
    if t.k == 'struct': return 1 if t.packed else max([align_of(e) for e in t.els] or [1])
    raise ValueError(t)
def size_of(t):
    t = resolve(t)
    if t.k == 'int':
        b = (t.bits+7)//8; return 1 << (b-1).bit_length() if b > 1 else 1
    if t.k == 'float': return 4
    if t.k in ('double', 'ptr'): return 8
    if t.k == 'arr': return t.n * size_of(t.el)
    if t.k == 'struct':
        off = 0
        for e in t.els:
            if not t.packed: off = (off + align_of(e) - 1) // align_of(e) * align_of(e)
            off += size_of(e)
        a = align_of(t); return (off + a - 1) // a * a
    raise ValueError(t)

# ---------------------------------------------------------------- C type emission
def ctype(t, decl=''):
    """C declarator for type t wrapping 'decl'"""
    if t.k == 'int':
        b = t.bits
        w = 8 if b <= 8 else 16 if b <= 16 else 32 if b <= 32 else 64
        return ('uint%d_t %s' % (w, decl)).strip()
    if t.k == 'void': return ('void ' + decl).strip()
    if t.k == 'float': return ('float ' + decl).strip()
    if t.k == 'double': return ('double ' + decl).strip()
    if t.k == 'ptr':
        if t.to.k in ('arr', 'fn'): return ctype(t.to, '(*%s)' % decl)
        if t.to.k == 'named' and M.named.get(t.to.name) is None: return ('void *' + decl).strip()
        return ctype(t.to, '*' + decl)
    if t.k == 'arr': return ctype(t.el, '%s[%d]' % (decl, max(t.n, 0)))
    if t.k == 'named': return ('struct %s %s' % (M.cname[t.name], decl)).strip()
    if t.k == 'struct':
        key = repr(t)
        if key not in M.lits: M.lits[key] = (PREFIX + 'lit%d' % len(M.lits), t)
        return ('struct %s %s' % (M.lits[key][0], decl)).strip()
    if t.k == 'fn':
        return ctype(t.ret, '%s(%s)' % (decl, ', '.join(ctype(p) for p in t.ps) or ('' if t.va else 'void')))
    raise ValueError(t)

def struct_def(cn, t):
    body = ''.join('  %s;\n' % ctype(e, 'f%d' % i) for i, e in enumerate(t.els))
    if not t.els: body = ''
    return 'struct %s%s {\n%s};\n' % ('__attribute__((packed)) ' if t.packed else '', cn, body)

# ---------------------------------------------------------------- values
class V:  # parsed operand
    def __init__(s, ty, c): s.ty = ty; s.c = c

def cname_local(n): return 'v_' + san(n)
def cname_glob(n):
    sn = san(n)
    return (PREFIX if (n in M.defined and not (PREFIX and sn.startswith(PREFIX))) else '') + sn

def fconst(tok, ty):
    if tok.startswith('0x'):
        import struct
        bits = int(tok[2:], 16); d = struct.unpack('<d', struct.pack('<Q', bits))[0]
        if d != d: return '(0.0/0.0)'
        if d in (float('inf'), float('-inf')): return '(%s1.0/0.0)' % ('-' if d < 0 else '')
        return ('%r' % d) + ('f' if ty.k == 'float' else '')
    return tok + ('f' if ty.k == 'float' else '')

def mask(bits, expr):
    if bits in (8, 16, 32, 64): return expr
    return '((%s) & 0x%xu)' % (expr, (1 << bits) - 1) if bits < 64 else expr

class FnCtx:
    def __init__(s): s.vty = {}

def parse_value(p, ty, fc):
    """parse an operand of known type; returns C expression string"""
    k, v = p.next()
    if k == 'lname': return cname_local(v)
    if k == 'gname': return gref(v)
    if k == 'num':
        if ty.k in ('float', 'double'): return fconst(v, ty)
        n = int(v)
        if ty.k == 'int':
            n &= (1 << ty.bits) - 1
            return '%dU' % n if ty.bits <= 32 else '%dULL' % n
        return str(n)
    if k == 'id':
        if v == 'true': return '1'
        if v == 'false': return '0'
        if v == 'null': return '((%s)0)' % ctype(ty)
        if v in ('undef', 'poison'):
            if ty.k == 'ptr': return '((%s)0)' % ctype(ty)
            if ty.k in ('int', 'float', 'double'): return '0'
            return None
        if v == 'zeroinitializer': return None
        if v in ('getelementptr', 'bitcast', 'inttoptr', 'ptrtoint'):
            return constexpr(p, v, fc)[1]
    raise SyntaxError('value? %s %s' % (k, v))

def gref(n):
    if n in M.fsig:
        M.addr_taken.add(n); return cname_glob(n) + '__thunk'
    return '(&%s)' % cname_glob(n)

def erase(t): return Ptr(VOID) if t.k == 'ptr' else t

def constexpr(p, op, fc):
    if op == 'getelementptr':
        p.accept('inbounds'); p.expect('(')
        bty = p.type(); p.expect(','); pty = p.type(); base = parse_value(p, pty, fc)
        idx = []
        while p.accept(','):
            p.accept('inrange'); ity = p.type(); idx.append((ity, parse_value(p, ity, fc)))
        p.expect(')')
        return gep_expr(bty, base, idx)
    if op in ('bitcast', 'inttoptr', 'ptrtoint'):
        p.expect('('); sty = p.type(); v = parse_value(p, sty, fc); p.expect('to'); dty = p.type(); p.expect(')')
        return dty, '((%s)%s)' % (ctype(dty), v)
    raise SyntaxError(op)

def gep_expr(bty, base, idx):
    """returns (result pointer Ty, C expr)"""
    e = '(%s)[%s]' % (base, sidx(idx[0])) if idx[0][1] not in ('0U', '0ULL', '0') else '(*%s)' % base
    t = bty
    for ity, iv in idx[1:]:
        r = resolve(t)
        if r.k == 'struct':
            n = int(iv.rstrip('UL')); e = '%s.f%d' % (e, n); t = r.els[n]
        elif r.k == 'arr':
            e = '%s[%s]' % (e, sidx((ity, iv))); t = r.el
        else: raise ValueError('gep into %r' % r)
    return Ptr(t), '(&%s)' % e

def sidx(iv):
    ity, v = iv
    if v.rstrip('UL').isdigit():
        n = int(v.rstrip('UL'))
        if ity.k == 'int' and n >= 1 << (ity.bits-1): n -= 1 << ity.bits
        return str(n)
    return '(int%d_t)%s' % (64 if ity.bits > 32 else 32 if ity.bits > 16 else 16 if ity.bits > 8 else 8, v)

# ---------------------------------------------------------------- function translation
FLAGS = {'nuw', 'nsw', 'exact', 'inbounds', 'fast', 'nnan', 'ninf', 'nsz', 'arcp', 'contract', 'afn', 'reassoc',
         'tail', 'musttail', 'notail', 'volatile', 'noundef', 'nonnull', 'signext', 'zeroext', 'inreg', 'noalias',
         'nocapture', 'readonly', 'readnone', 'writeonly', 'returned', 'immarg', 'nofree', 'dso_local', 'fastcc',
         'ccc', 'nest', 'swiftself', 'noinline'}

def skip_attrs(p):
    while True:
        k, v = p.peek()
        if k == 'id' and v in FLAGS: p.next()
        elif k == 'id' and v in ('align', 'dereferenceable', 'dereferenceable_or_null'):
            p.next()
            if p.accept('('): p.next(); p.expect(')')
            else: p.next()
        elif k == 'id' and v in ('sret', 'byval', 'byref', 'preallocated', 'inalloca', 'elementtype'):
            p.next(); p.expect('('); p.type(); p.expect(')')
        elif k == 'attr': p.next()
        else: break

def sint(bits): return 'int%d_t' % (8 if bits <= 8 else 16 if bits <= 16 else 32 if bits <= 32 else 64)
def uint(bits): return 'uint%d_t' % (8 if bits <= 8 else 16 if bits <= 16 else 32 if bits <= 32 else 64)
def sext_expr(bits, e):
    if bits in (8, 16, 32, 64): return '((%s)%s)' % (sint(bits), e)
    w = 8 if bits <= 8 else 16 if bits <= 16 else 32 if bits <= 32 else 64
    return '((%s)((%s)((%s)%s << %d)) >> %d)' % (sint(w), sint(w), uint(w), e, w-bits, w-bits)

def odd(bits): return bits not in (8, 16, 32, 64) and bits != 1

def emit_load(ty, ptr):
    if ty.k == 'int' and odd(ty.bits):
        nb = (ty.bits + 7)//8
        return mask(ty.bits, '(' + ' | '.join('((%s)((uint8_t*)%s)[%d] << %d)' % (uint(ty.bits), ptr, i, 8*i) for i in range(nb)) + ')')
    if ty.k == 'int' and ty.bits == 1: return '(*(uint8_t*)%s & 1)' % ptr
    return '(*%s)' % ptr

def emit_store(ty, val, ptr):
    if ty.k == 'int' and odd(ty.bits):
        nb = (ty.bits + 7)//8
        return ' '.join('((uint8_t*)%s)[%d] = (uint8_t)(%s >> %d);' % (ptr, i, val, 8*i) for i in range(nb))
    return '*%s = %s;' % (ptr, val)

class Fn: pass

def translate_function(header, body_lines):
    p = P(tokenize(header)); p.expect('define')
    # skip linkage etc until return type
    while p.peek()[0] == 'id' and p.peek()[1] in ('dso_local', 'linkonce_odr', 'internal', 'weak_odr', 'weak', 'hidden', 'private', 'noundef', 'zeroext', 'signext', 'nonnull', 'noalias', 'fastcc', 'available_externally', 'unnamed_addr', 'local_unnamed_addr') or p.peek()[1] in ('align', 'dereferenceable'):
        skip_attrs(p)
        if p.peek()[0] == 'id' and p.peek()[1] in ('dso_local', 'linkonce_odr', 'internal', 'weak_odr', 'weak', 'hidden', 'private', 'available_externally'): p.next()
    rty = p.type(); name = p.next()[1]; p.expect('(')
    params = []
    if not p.accept(')'):
        while True:
            if p.accept('...'): pass
            else:
                t = p.type(); skip_attrs(p); n = p.next()[1]; params.append((t, n))
            if p.accept(')'): break
            p.expect(',')
    fc = FnCtx()
    for t, n in params: fc.vty[n] = t
    # split into blocks
    blocks = []; cur = None; pending = None
    first_label = str(len(params))
    for ln in body_lines:
        s = ln.strip()
        if not s or s.startswith(';'): continue
        m = re.match(r'^([-a-zA-Z$._0-9]+|"[^"]*"):', s)
        if m:
            cur = [m.group(1).strip('"'), []]; blocks.append(cur); continue
        if cur is None:
            cur = [first_label, []]; blocks.append(cur)
        if pending is not None:
            pending += ' ' + s
            if s.startswith(']'): cur[1].append(pending); pending = None
            continue
        if s.startswith('switch ') and s.rstrip().endswith('['):
            pending = s; continue
        cur[1].append(s)
    decls = {}      # c var -> type
    out = []
    phis = {}       # block label -> list of (dest cvar, ty, {pred label: value c})
    pre = {}        # label -> parsed instrs
    # first pass: parse phis to know edge copies
    for lab, ins in blocks:
        for s in ins:
            if ' = phi ' in s:
                toks = tokenize(s); q = P(toks)
                dest = q.next()[1]; q.expect('='); q.expect('phi'); ty = q.type()
                inc = {}
                while True:
                    q.expect('['); v = parse_value(q, ty, fc); q.expect(','); l = q.next()[1].lstrip('%').strip('"'); q.expect(']')
                    inc[l] = v
                    if not q.accept(','): break
                phis.setdefault(lab, []).append((cname_local(dest), ty, inc))
                decls[cname_local(dest)] = ty
    def edge(src, dst):
        ps = phis.get(dst, [])
        s = ''
        if len(ps) == 1:
            d, ty, inc = ps[0]
            if inc[src] is not None: s += '%s = %s; ' % (d, inc[src])
        elif ps:
            for i, (d, ty, inc) in enumerate(ps):
                decls['t_' + d] = ty
                if inc[src] is not None: s += 't_%s = %s; ' % (d, inc[src])
            for d, ty, inc in ps:
                if inc[src] is not None: s += '%s = t_%s; ' % (d, d)
        return s + 'goto L_%s;' % san(dst)
    allocas = []
    # emit blocks in reverse post-order of the CFG: every non-back edge becomes a forward goto, so CBMC sees loop exits
    # as forward jumps (its per-loop unwind counters are then reset on exit; with LLVM's own block order a rotated
    # loop's exit can be a textually backward jump and inner-loop counters accumulate over outer iterations)
    succ = {}
    for lab, ins in blocks:
        t = ins[-1] if ins else ''
        succ[lab] = [x.strip('"') for x in re.findall(r'label %("[^"]*"|[-a-zA-Z$._0-9]+)', t)]
    order_ = []; seen_ = set()
    def dfs_(b):
        stack = [(b, iter(succ.get(b, [])))]; seen_.add(b)
        while stack:
            n, it = stack[-1]
            for m in it:
                if m not in seen_ and m in succ:
                    seen_.add(m); stack.append((m, iter(succ[m]))); break
            else:
                order_.append(n); stack.pop()
    if blocks: dfs_(blocks[0][0])
    rpo = list(reversed(order_))
    bmap = dict((l, i) for l, i in blocks)
    blocks = [[l, bmap[l]] for l in rpo] + [[l, i] for l, i in blocks if l not in seen_]
    for lab, ins in blocks:
        out.append('L_%s: ;' % san(lab))
        for s in ins:
            q = P(tokenize(s)); dest = None
            if q.peek()[0] == 'lname' and q.peek(1)[1] == '=':
                dest = q.next()[1]; q.next()
            while q.peek()[1] in ('tail', 'musttail', 'notail'): q.next()
            op = q.next()[1]
            def setv(ty, expr):
                if ty.k == 'void' or dest is None:
                    out.append('  %s;' % expr); return
                cv = cname_local(dest); decls[cv] = ty; fc.vty[dest] = ty
                if ty.k == 'int' and ty.bits not in (8, 16, 32, 64): expr = mask(ty.bits, expr)
                out.append('  %s = %s;' % (cv, expr))
            if op == 'phi': continue
            elif op == 'alloca':
                ty = q.type(); n = '1'
                if q.accept(','):
                    if q.peek()[1] != 'align':
                        nt = q.type(); n = parse_value(q, nt, fc)
                cv = cname_local(dest); sv = 'a_' + san(dest)
                allocas.append((sv, ty, n)); decls[cv] = Ptr(ty); fc.vty[dest] = Ptr(ty)
                out.append('  %s = %s;' % (cv, ('&' + sv) if n == '1' else sv))
            elif op == 'load':
                q.accept('volatile'); ty = q.type(); q.expect(','); pty = q.type(); ptr = parse_value(q, pty, fc)
                setv(ty, emit_load(ty, ptr))
            elif op == 'store':
                q.accept('volatile'); ty = q.type(); val = parse_value(q, ty, fc); q.expect(','); pty = q.type(); ptr = parse_value(q, pty, fc)
                if val is None:  # zeroinitializer / undef aggregate
                    out.append('  memset(%s, 0, sizeof(*%s));' % (ptr, ptr))
                else: out.append('  ' + emit_store(ty, val, ptr))
            elif op == 'getelementptr':
                q.accept('inbounds'); bty = q.type(); q.expect(','); pty = q.type(); base = parse_value(q, pty, fc)
                idx = []
                while q.accept(','):
                    if q.peek()[0] == 'meta': break
                    ity = q.type(); idx.append((ity, parse_value(q, ity, fc)))
                rty_, e = gep_expr(bty, base, idx); setv(rty_, e)
            elif op in ('bitcast', 'inttoptr', 'ptrtoint', 'addrspacecast'):
                sty = q.type(); v = parse_value(q, sty, fc); q.expect('to'); dty = q.type()
                if op == 'bitcast' and sty.k != 'ptr':
                    # float<->int reinterpret
                    decls[cname_local(dest)] = dty; fc.vty[dest] = dty
                    out.append('  { %s tmp_ = %s; memcpy(&%s, &tmp_, sizeof(tmp_)); }' % (ctype(sty), v, cname_local(dest)))
                else: setv(dty, '(%s)%s' % (ctype(dty), v))
            elif op in ('zext', 'trunc', 'sext', 'uitofp', 'sitofp', 'fptoui', 'fptosi', 'fpext', 'fptrunc'):
                sty = q.type(); v = parse_value(q, sty, fc); q.expect('to'); dty = q.type()
                if op == 'zext': e = '(%s)%s' % (ctype(dty), v)
                elif op == 'trunc': e = mask(dty.bits, '(%s)%s' % (ctype(dty), v)) if dty.bits != 1 else '(%s & 1)' % v
                elif op == 'sext': e = '(%s)(%s)%s' % (ctype(dty), sint(dty.bits), sext_expr(sty.bits, v) if sty.bits != 1 else '(-(%s)%s)' % (sint(dty.bits), v))
                elif op == 'uitofp': e = '(%s)%s' % (ctype(dty), v)
                elif op == 'sitofp': e = '(%s)%s' % (ctype(dty), sext_expr(sty.bits, v))
                elif op == 'fptoui': e = '(%s)%s' % (ctype(dty), v)
                elif op == 'fptosi': e = '(%s)(%s)%s' % (ctype(dty), sint(dty.bits), v)
                else: e = '(%s)%s' % (ctype(dty), v)
                setv(dty, e)
            elif op in ('add', 'sub', 'mul', 'udiv', 'sdiv', 'urem', 'srem', 'and', 'or', 'xor', 'shl', 'lshr', 'ashr'):
                while q.peek()[1] in ('nuw', 'nsw', 'exact'): q.next()
                ty = q.type(); a = parse_value(q, ty, fc); q.expect(','); b = parse_value(q, ty, fc)
                b_ = ty.bits; U = ctype(ty)
                if b_ == 1:
                    e = {'add': '(%s ^ %s)', 'sub': '(%s ^ %s)', 'mul': '(%s & %s)', 'and': '(%s & %s)', 'or': '(%s | %s)', 'xor': '(%s ^ %s)'}[op] % (a, b)
                elif op in ('add', 'sub', 'mul', 'and', 'or', 'xor'):
                    c = {'add': '+', 'sub': '-', 'mul': '*', 'and': '&', 'or': '|', 'xor': '^'}[op]
                    W = 'uint64_t' if b_ > 32 else 'uint32_t'
                    e = '(%s)((%s)%s %s (%s)%s)' % (U, W, a, c, W, b)
                elif op in ('udiv', 'urem'): e = '(%s)(%s %s %s)' % (U, a, '/' if op == 'udiv' else '%', b)
                elif op in ('sdiv', 'srem'): e = '(%s)(%s %s %s)' % (U, sext_expr(b_, a), '/' if op == 'sdiv' else '%', sext_expr(b_, b))
                elif op == 'shl': e = '(%s)((%s)%s << %s)' % (U, 'uint64_t' if b_ > 32 else 'uint32_t', a, b)
                elif op == 'lshr': e = '(%s)(%s >> %s)' % (U, a, b)
                elif op == 'ashr': e = '(%s)(%s >> %s)' % (U, sext_expr(b_, a), b)
                setv(ty, e)
            elif op in ('fadd', 'fsub', 'fmul', 'fdiv', 'frem'):
                while q.peek()[1] in FLAGS: q.next()
                ty = q.type(); a = parse_value(q, ty, fc); q.expect(','); b = parse_value(q, ty, fc)
                setv(ty, '(%s %s %s)' % (a, {'fadd': '+', 'fsub': '-', 'fmul': '*', 'fdiv': '/'}[op], b))
            elif op == 'fneg':
                while q.peek()[1] in FLAGS: q.next()
                ty = q.type(); a = parse_value(q, ty, fc); setv(ty, '(-%s)' % a)
            elif op == 'icmp':
                cc = q.next()[1]; ty = q.type(); a = parse_value(q, ty, fc); q.expect(','); b = parse_value(q, ty, fc)
                cop = {'eq': '==', 'ne': '!=', 'ugt': '>', 'uge': '>=', 'ult': '<', 'ule': '<=', 'sgt': '>', 'sge': '>=', 'slt': '<', 'sle': '<='}[cc]
                if cc[0] == 's' and ty.k == 'int': a, b = sext_expr(ty.bits, a), sext_expr(ty.bits, b)
                elif ty.k == 'ptr' and cc not in ('eq', 'ne'): a, b = '(uintptr_t)' + a, '(uintptr_t)' + b
                setv(Int(1), '(%s %s %s)' % (a, cop, b))
            elif op == 'fcmp':
                while q.peek()[1] in FLAGS: q.next()
                cc = q.next()[1]; ty = q.type(); a = parse_value(q, ty, fc); q.expect(','); b = parse_value(q, ty, fc)
                un = '(%s != %s || %s != %s)' % (a, a, b, b)
                base = {'eq': '==', 'ne': '!=', 'gt': '>', 'ge': '>=', 'lt': '<', 'le': '<='}
                if cc == 'true': e = '1'
                elif cc == 'false': e = '0'
                elif cc == 'ord': e = '(!%s)' % un
                elif cc == 'uno': e = un
                elif cc[0] == 'o': e = '(%s %s %s)' % (a, base[cc[1:]], b) if cc != 'one' else '(!%s && %s != %s)' % (un, a, b)
                else: e = '(%s || %s %s %s)' % (un, a, base[cc[1:]], b) if cc != 'une' else '(%s != %s)' % (a, b)
                setv(Int(1), e)
            elif op == 'select':
                while q.peek()[1] in FLAGS: q.next()
                cty = q.type(); c = parse_value(q, cty, fc); q.expect(','); ty = q.type(); a = parse_value(q, ty, fc); q.expect(','); ty2 = q.type(); b = parse_value(q, ty2, fc)
                setv(ty, '(%s ? %s : %s)' % (c, a, b))
            elif op == 'freeze':
                ty = q.type(); a = parse_value(q, ty, fc); setv(ty, a)
            elif op == 'br':
                if q.accept('label'):
                    out.append('  ' + edge(lab, q.next()[1].lstrip('%').strip('"')))
                else:
                    q.type(); c = parse_value(q, Int(1), fc); q.expect(','); q.expect('label'); t = q.next()[1].lstrip('%').strip('"'); q.expect(','); q.expect('label'); f = q.next()[1].lstrip('%').strip('"')
                    out.append('  if (%s) { %s } else { %s }' % (c, edge(lab, t), edge(lab, f)))
            elif op == 'switch':
                ty = q.type(); v = parse_value(q, ty, fc); q.expect(','); q.expect('label'); dflt = q.next()[1].lstrip('%').strip('"'); q.expect('[')
                out.append('  switch (%s) {' % v)
                while not q.accept(']'):
                    cty = q.type(); cv = parse_value(q, cty, fc); q.expect(','); q.expect('label'); l = q.next()[1].lstrip('%').strip('"')
                    out.append('    case %s: { %s }' % (cv, edge(lab, l)))
                out.append('    default: { %s }' % edge(lab, dflt)); out.append('  }')
            elif op == 'ret':
                ty = q.type()
                if ty.k == 'void': out.append('  return;')
                else: out.append('  return %s;' % parse_value(q, ty, fc))
            elif op == 'unreachable':
                out.append('  __CPROVER_assert(0, "unreachable"); __CPROVER_assume(0);')
            elif op == 'call':
                while q.peek()[1] in FLAGS: q.next()
                skip_attrs(q)
                ty = q.type()
                if ty.k == 'fn': ty = ty.ret
                elif ty.k == 'ptr' and ty.to.k == 'fn': ty = ty.to.ret
                callee = q.next(); args = []
                q.expect('(')
                if not q.accept(')'):
                    while True:
                        aty = q.type(); skip_attrs(q)
                        if aty.k == 'metadata':
                            q.next(); args.append((aty, '0'))
                        else: args.append((aty, parse_value(q, aty, fc)))
                        if q.accept(')'): break
                        q.expect(',')
                cn = callee[1]
                if callee[0] == 'gname' and cn.startswith('@llvm.'):
                    nm = cn[6:]
                    if nm.startswith('lifetime') or nm.startswith('dbg.') or nm.startswith('assume') or nm.startswith('experimental.noalias') or nm.startswith('invariant'):
                        continue
                    if nm.startswith('memcpy') or nm.startswith('memmove'):
                        out.append('  %s((void*)%s, (const void*)%s, %s);' % ('memcpy' if nm.startswith('memcpy') else 'memmove', args[0][1], args[1][1], args[2][1])); continue
                    if nm.startswith('memset'):
                        out.append('  memset((void*)%s, (int)(uint8_t)%s, %s);' % (args[0][1], args[1][1], args[2][1])); continue
                    b_ = ty.bits if ty.k == 'int' else 0
                    if nm.startswith('umin'): setv(ty, '(%s < %s ? %s : %s)' % (args[0][1], args[1][1], args[0][1], args[1][1])); continue
                    if nm.startswith('umax'): setv(ty, '(%s > %s ? %s : %s)' % (args[0][1], args[1][1], args[0][1], args[1][1])); continue
                    if nm.startswith('smin'): setv(ty, '(%s < %s ? %s : %s)' % (sext_expr(b_, args[0][1]), sext_expr(b_, args[1][1]), args[0][1], args[1][1])); continue
                    if nm.startswith('smax'): setv(ty, '(%s > %s ? %s : %s)' % (sext_expr(b_, args[0][1]), sext_expr(b_, args[1][1]), args[0][1], args[1][1])); continue
                    if nm.startswith('fshl') or nm.startswith('fshr'):
                        a, b, c = (x[1] for x in args); U = ctype(ty)
                        sh = '(%s %% %d)' % (c, b_)
                        if nm.startswith('fshl'): e = '(%s == 0 ? %s : (%s)((%s << %s) | (%s >> (%d - %s))))' % (sh, a, U, a, sh, b, b_, sh)
                        else: e = '(%s == 0 ? %s : (%s)((%s << (%d - %s)) | (%s >> %s)))' % (sh, b, U, a, b_, sh, b, sh)
                        setv(ty, e); continue
                    if nm.startswith('abs'): setv(ty, '(%s)(%s < 0 ? -%s : %s)' % (ctype(ty), sext_expr(b_, args[0][1]), sext_expr(b_, args[0][1]), args[0][1])); continue
                    if nm.startswith('trap'): out.append('  __CPROVER_assert(0, "llvm.trap"); __CPROVER_assume(0);'); continue
                    raise SyntaxError('intrinsic ' + cn)
                if callee[0] == 'gname':
                    setv(ty, '%s(%s)' % (cname_glob(cn), ', '.join(a[1] for a in args)))
                else:
                    fpt = ctype(Ptr(Ty('fn', ret=erase(ty), ps=[erase(a[0]) for a in args], va=False)))
                    setv(ty, '%s((%s)%s)(%s)' % ('' if ty.k != 'ptr' else '(%s)' % ctype(ty), fpt, cname_local(cn), ', '.join(('(void*)' + a[1]) if a[0].k == 'ptr' else a[1] for a in args)))
            elif op == 'extractvalue':
                aty = q.type(); agg = parse_value(q, aty, fc); e = agg; t = aty
                while q.accept(','):
                    if q.peek()[0] == 'meta': break
                    n = int(q.next()[1]); r = resolve(t)
                    if r.k == 'struct': e = '%s.f%d' % (e, n); t = r.els[n]
                    else: e = '%s[%d]' % (e, n); t = r.el
                setv(t, e)
            elif op == 'insertvalue':
                aty = q.type(); agg = parse_value(q, aty, fc); q.expect(','); ety = q.type(); ev = parse_value(q, ety, fc)
                path = ''; t = aty
                while q.accept(','):
                    if q.peek()[0] == 'meta': break
                    n = int(q.next()[1]); r = resolve(t)
                    if r.k == 'struct': path += '.f%d' % n; t = r.els[n]
                    else: path += '[%d]' % n; t = r.el
                cv = cname_local(dest); decls[cv] = aty; fc.vty[dest] = aty
                if agg is None: out.append('  memset(&%s, 0, sizeof(%s));' % (cv, cv))
                else: out.append('  %s = %s;' % (cv, agg))
                out.append('  %s%s = %s;' % (cv, path, ev))
            else:
                raise SyntaxError('op? ' + op + ' :: ' + s)
    f = Fn(); f.name = name; f.rty = rty; f.params = params
    M.fdef[name] = (rty, [t for t, n in params])
    hdr = '%s(%s)' % (cname_glob(name), ', '.join(ctype(t, cname_local(n)) for t, n in params) or 'void')
    f.proto = ctype(rty, hdr) if rty.k != 'fn' else None
    lines = [f.proto + ' {']
    for sv, ty, n in allocas:
        lines.append('  %s;' % (ctype(ty, sv) if n == '1' else ctype(Ty('arr', n=int(n.rstrip('UL')), el=ty), sv)))
    pn = {cname_local(n) for t, n in params}
    for cv, ty in decls.items():
        if cv not in pn: lines.append('  %s;' % ctype(ty, cv))
    lines += out; lines.append('}')
    f.text = '\n'.join(lines)
    return f

def const_init(p, ty):
    k, v = p.peek()
    r = resolve(ty) if ty.k == 'named' else ty
    if v == 'zeroinitializer': p.next(); return '{0}'
    if v in ('undef', 'poison') and r.k in ('struct', 'arr'): p.next(); return '{0}'
    if r.k == 'arr':
        if k == 'str':
            p.next(); raw = v[2:-1]; bs = []
            i = 0
            while i < len(raw):
                if raw[i] == '\\': bs.append(int(raw[i+1:i+3], 16)); i += 3
                else: bs.append(ord(raw[i])); i += 1
            return '{' + ','.join(str(b) for b in bs) + '}'
        p.expect('['); els = []
        if not p.accept(']'):
            while True:
                et = p.type(); els.append(const_init(p, et))
                if p.accept(']'): break
                p.expect(',')
        return '{' + ', '.join(els) + '}'
    if r.k == 'struct':
        close = '}>' if v == '<{' else '}'; p.next(); els = []
        if not p.accept(close):
            while True:
                et = p.type(); els.append(const_init(p, et))
                if p.accept(close): break
                p.expect(',')
        return '{' + ', '.join(els) + '}'
    return parse_value(p, ty, FnCtx())

# ---------------------------------------------------------------- module
def translate(path, prefix=''):
    """Translate LLVM-14 textual IR file -> C text. Returns (c_text, info) where info lists
    the defined function names (mangled) so evidence can name the verified units."""
    global M, PREFIX
    M = Mod(); PREFIX = prefix
    src = open(path).read().split('\n')
    i = 0; type_lines = []; fn_chunks = []; decl_lines = []; glob_lines = []
    while i < len(src):
        ln = src[i]
        if ln.startswith('%') and ' = type ' in ln: type_lines.append(ln)
        elif ln.startswith('define '):
            body = []; i += 1
            while src[i] != '}': body.append(src[i]); i += 1
            fn_chunks.append((ln, body))
        elif ln.startswith('declare '): decl_lines.append(ln)
        elif ln.startswith('@'): glob_lines.append(ln)
        i += 1
    order = []
    for ln in type_lines:
        p = P(tokenize(ln)); n = p.next()[1]; p.expect('='); p.expect('type')
        if p.peek()[1] == 'opaque': M.named[n] = None
        else: M.named[n] = p.type()
        M.cname[n] = PREFIX + 'T_' + san(n); order.append(n)
    # function signatures (for gref)
    for ln, _ in fn_chunks:
        m = re.search(r'(@"(?:[^"\\]|\\.)*"|@[-a-zA-Z$._0-9]+)\(', ln); M.fsig[m.group(1)] = True
        M.defined.add(m.group(1))
    for ln in glob_lines:
        m = re.match(r'^(@"(?:[^"\\]|\\.)*"|@[-a-zA-Z$._0-9]+) = (.*)$', ln)
        if not re.match(r'^(?:[a-z_]+ )*external ', m.group(2)): M.defined.add(m.group(1))
    protos = []
    for ln in decl_lines:
        m = re.search(r'(@"(?:[^"\\]|\\.)*"|@[-a-zA-Z$._0-9]+)\(', ln); n = m.group(1); M.fsig[n] = True
        if n.startswith('@llvm.'): continue
        p = P(tokenize(ln)); p.expect('declare'); skip_attrs(p)
        while p.peek()[1] in ('dso_local', 'noundef', 'zeroext', 'signext', 'nonnull', 'noalias'): p.next()
        skip_attrs(p)
        rty = p.type(); p.next(); p.expect('('); ps = []
        if not p.accept(')'):
            while True:
                if p.accept('...'): pass
                else: ps.append(p.type()); skip_attrs(p)
                if p.accept(')'): break
                p.expect(',')
        M.fdef[n] = (rty, ps)
        protos.append(ctype(rty, '%s(%s)' % (cname_glob(n), ', '.join(ctype(t) for t in ps) or 'void')) + ';')
    gl = []
    for ln in glob_lines:
        # only support zeroinitializer / simple int arrays / strings minimally
        m = re.match(r'^(@"(?:[^"\\]|\\.)*"|@[-a-zA-Z$._0-9]+) = (.*)$', ln)
        n = m.group(1); p = P(tokenize(m.group(2)))
        while p.peek()[0] == 'id' and p.peek()[1] in ('dso_local', 'internal', 'private', 'unnamed_addr', 'local_unnamed_addr', 'constant', 'global', 'linkonce_odr', 'weak_odr', 'external', 'hidden'): p.next()
        ty = p.type(); M.gty[n] = ty
        gl.append((n, ty, m.group(2)))
    fns = [translate_function(h, b) for h, b in fn_chunks]
    for n_, ty_, _i in gl: ctype(ty_)
    o = ['#include <stdint.h>', '#include <string.h>', '']
    # struct decls in dependency order: forward declare all, then define in order of value-dependency
    for n in order:
        if M.named[n] is not None: o.append('struct %s;' % M.cname[n])
    done = set(); defs = []
    def need(t):
        if t.k == 'named':
            if M.named[t.name] is not None: emit(t.name)
        elif t.k == 'arr': need(t.el)
        elif t.k == 'struct':
            for e in t.els: need(e)
            key = repr(t)
            if key not in M.lits: M.lits[key] = (PREFIX + 'lit%d' % len(M.lits), t)
            if key not in done: done.add(key); defs.append(struct_def(M.lits[key][0], t))
    def emit(n):
        if n in done: return
        done.add(n); t = M.named[n]
        for e in t.els: need(e)
        defs.append(struct_def(M.cname[n], t))
    for n in order:
        if M.named[n] is not None: emit(n)
    for key, (cn, t) in list(M.lits.items()):
        need(t)
    o += defs
    for n in order:
        if M.named[n] is not None:
            o.append('_Static_assert(sizeof(struct %s) == %d, "layout %s");' % (M.cname[n], size_of(M.named[n]), M.cname[n]))
    o += protos
    for n, ty, init in gl:
        o.append('extern %s;' % ctype(ty, cname_glob(n)))
    ginit = []
    for n, ty, init in gl:
        p = P(tokenize(init))
        while p.peek()[0] == 'id' and p.peek()[1] in ('dso_local', 'internal', 'private', 'unnamed_addr', 'local_unnamed_addr', 'constant', 'global', 'linkonce_odr', 'weak_odr', 'external', 'hidden'): p.next()
        t2 = p.type()
        if p.eof() or p.peek()[1] == ',': ginit.append('%s;' % ctype(ty, cname_glob(n))); continue
        ginit.append('%s = %s;' % (ctype(ty, cname_glob(n)), const_init(p, t2)))
    for f in fns: o.append(f.proto + ';')
    thunks = []
    pend = []
    for n, ty, init in gl: pass
    o.append('/*THUNK_PROTOS*/')
    o += ginit
    for f in fns: o.append(''); o.append(f.text)
    tp = []
    for n in sorted(M.addr_taken):
        if n not in M.fdef: continue
        rty, ps = M.fdef[n]
        sig = '%s__thunk(%s)' % (cname_glob(n), ', '.join(ctype(erase(t), 'a%d' % i) for i, t in enumerate(ps)) or 'void')
        tp.append(ctype(erase(rty), sig) + ';')
        call = '%s(%s)' % (cname_glob(n), ', '.join(('(%s)a%d' % (ctype(t), i)) if t.k == 'ptr' else 'a%d' % i for i, t in enumerate(ps)))
        o.append(ctype(erase(rty), sig) + ' { %s%s; }' % ('' if rty.k == 'void' else 'return ' + ('(void*)' if rty.k == 'ptr' else ''), call))
    txt = '\n'.join(o).replace('/*THUNK_PROTOS*/', '\n'.join(tp))
    info = {'functions': [f.name.lstrip('@').strip('"') for f in fns], 'n_functions': len(fns),
            'n_structs': len(order), 'declared': sorted(n.lstrip('@') for n in M.fdef if n not in M.defined and not n.startswith('@llvm.'))}
    return txt, info

if __name__ == '__main__':
    t, _ = translate(sys.argv[1], sys.argv[2] if len(sys.argv) > 2 else '')
    sys.stdout.write(t + '\n')
