#!/usr/bin/env python3
"""Case execution engine shared by all properties: translation validation, CBMC queries (+ witness twins),
counterexample replay against the real code, known-finding handling, evidence, exit code."""
import os, re, sys, json, time, shutil, hashlib, fnmatch
from concurrent.futures import ThreadPoolExecutor
from core import *

class Case:
    def __init__(self, name, fixture, harness, defs=(), unwind=None, unwindset=(), checks='none', solvers=('default',),
                 timeout=600, meta=None, witness=True, tv=True, mem_gb=12, extra=(), tv_seeds=24, native_defs=(),
                 replay_san=False, witness_timeout=None, object_bits=None):
        self.name = name; self.fixture = fixture; self.harness = harness; self.defs = list(defs)
        self.unwind = unwind; self.unwindset = list(unwindset); self.checks = checks; self.solvers = list(solvers)
        self.timeout = timeout; self.meta = dict(meta or {}); self.witness = witness; self.tv = tv; self.mem_gb = mem_gb
        self.extra = list(extra); self.tv_seeds = tv_seeds; self.native_defs = list(native_defs); self.replay_san = replay_san
        self.witness_timeout = witness_timeout or timeout; self.object_bits = object_bits; self.cbmc = True
        self.fixture_b = None; self.cover = False; self.mem_est = 2
    def fx_defs(self):
        fx = self.fixture
        if self.fixture_b is not None:
            fb = self.fixture_b
            return ['VF_FIXTURE_A="%s"' % fx['c'], 'VF_TYPES_A="%s"' % fx['types'], 'VF_FIXTURE_B="%s"' % fb['c'], 'VF_TYPES_B="%s"' % fb['types']]
        return ['VF_FIXTURE="%s"' % fx['c'], 'VF_TYPES="%s"' % fx['types']]
    def query(self, extra_defs=(), suffix='', expect='holds', witness_of=None, timeout=None):
        m = dict(self.meta); m.update(case=self.name, fixture=self.fixture['name'], defs=self.defs + list(extra_defs))
        q = Query(self.name + suffix, self.harness, self.fx_defs() + self.defs + list(extra_defs), self.unwind, self.unwindset,
                  self.checks, timeout or self.timeout, self.solvers, expect, m, [os.path.join(VERIF, 'harness')], self.extra,
                  witness_of, self.mem_gb, self.object_bits)
        q.mem_est = self.mem_est
        return q

def _safe(n): return re.sub(r'[^A-Za-z0-9_.-]', '_', n)

def native_pair(case, bdir, san=False):
    """builds (exe_real, exe_translated) for a case"""
    fx = case.fixture
    key = _safe(case.name) + ('_san' if san else '')
    obj = real_object(fx, 'g++', san=san)
    if case.fixture_b is not None: obj = [obj, real_object(case.fixture_b, 'g++', san=san)]
    defs = case.fx_defs() + case.defs + case.native_defs
    er = build_native(case.harness, defs, obj, os.path.join(bdir, key + '_real'), san=san)
    return er

def native_translated(case, bdir):
    key = _safe(case.name)
    defs = case.fx_defs() + case.defs + case.native_defs
    return build_native(case.harness, defs, None, os.path.join(bdir, key + '_tr'), translated=True, cxx_link=False)

def translation_validate(case, bdir, seed):
    """same harness, same random nondet streams: g++ build of the real header vs gcc build of the translated C"""
    er = native_pair(case, bdir); et = native_translated(case, bdir)
    n = feas = 0; diffs = []
    for k in range(case.tv_seeds):
        s = seed * 1000 + k
        a = run_native(er, seed=s); b = run_native(et, seed=s); n += 1
        ha = re.findall(r'HASH=\w+ POPS=\d+', a['out']); hb = re.findall(r'HASH=\w+ POPS=\d+', b['out'])
        if a['rc'] != b['rc'] or ha != hb or a['fails'] != b['fails']:
            diffs.append(dict(seed=s, real=(a['rc'], ha, a['fails'][:2]), translated=(b['rc'], hb, b['fails'][:2])))
        if a['rc'] in (0, 10): feas += 1
    return dict(case=case.name, runs=n, feasible=feas, diffs=diffs)

def replay_case(pid, case, result, bdir, extra_defs=()):
    """counterexample(s) -> inputs -> run the SAME harness natively against the REAL object code.
    CBMC prints one trace per failed property; up to 4 of them are replayed and the native failures are united."""
    c2 = Case(case.name + '_rp', case.fixture, case.harness, case.defs + list(extra_defs), native_defs=case.native_defs)
    c2.fixture_b = case.fixture_b
    exe = native_pair(c2, bdir, san=case.replay_san)
    want = {d for _, d in result.get('failed', [])}
    got = set(); runs = []; san = False; first = None
    for k in range(min(4, max(1, len(want)))):
        inputs = trace_inputs(result['log'], case.harness, k)
        if inputs is None: break
        if any(r['inputs'] == inputs for r in runs): continue
        r = run_native(exe, inputs=inputs)
        runs.append(dict(inputs=inputs, native_failed=sorted(set(r['fails'])), native_rc=r['rc'], sanitizer_report=r['san'], native_tail=r['out'][-800:]))
        got |= set(r['fails']); san = san or r['san']
        if r['rc'] < 0 and r['rc'] != -9: got.add('native run crashed with signal %d' % -r['rc'])
        if first is None: first = r
    if not runs: return dict(reproduced=False, why='no trace in log')
    strip = lambda d: re.sub(r'^line \d+ ', '', d)
    rp = dict(property=pid, case=case.name, harness=os.path.relpath(getattr(case, 'harness_src', case.harness), VERIF), fixture=case.fixture['name'],
              defs=case.defs + list(extra_defs), fixture_defs=case.fixture.get('defs', []), runs=runs,
              cbmc_failed=sorted(want), native_failed=sorted(got))
    os.makedirs(os.path.join(REPLAYS, pid), exist_ok=True)
    path = os.path.join(REPLAYS, pid, _safe(case.name) + '.json')
    json.dump(rp, open(path, 'w'), indent=1)
    rp['path'] = path
    # reproduced = the native run against the REAL object code shows a symptom: a harness assertion fails (same oracle
    # code as under CBMC; for CBMC built-in checks the harness-level symptom is a guard band / invariant assertion) or,
    # for sanitizer-enabled replays, an ASan/UBSan report
    rp['reproduced'] = bool(got) or bool(san and case.replay_san)
    rp['reproduced_descs'] = sorted(d for d in want if strip(d) in got)
    rp['native_rc'] = first['rc']; rp['infeasible'] = first['infeasible']; rp['exhausted'] = first['exhausted']
    return rp

def match_known(known, pid, case_name, failed_descs):
    """known finding entries: {id, property, case (glob), assertion (regex), exclude_def, what}"""
    hits = []
    for k in known.get('findings', []):
        if k.get('property') != pid: continue
        if not fnmatch.fnmatch(case_name, k.get('case', '*')): continue
        if any(re.search(k.get('assertion', '.'), d) for d in failed_descs): hits.append(k)
    return hits

def execute(pid, tier, seed, cases, assumptions, extra_cov=None, budget_s=None, jobs=None, level='model_checking', keep=False, pre_violations=()):
    t0 = time.time()
    only = os.environ.get('VERIF_ONLY')
    if only: cases = [c for c in cases if fnmatch.fnmatch(c.name, only)]
    bdir = cases[0].fixture['workdir'] if cases else os.path.join(BUILD, pid)
    logdir = os.path.join(bdir, 'logs')
    # snapshot the harness sources into the build dir: the run (incl. line-number based trace extraction and the native
    # replay builds) is then immune to edits of /verif/harness while it is in progress
    snap = {}
    for c in cases:
        if c.harness not in snap:
            os.makedirs(bdir, exist_ok=True)
            dst = os.path.join(bdir, 'snapshot_' + os.path.basename(c.harness)); shutil.copyfile(c.harness, dst); snap[c.harness] = dst
        c.harness_src = c.harness; c.harness = snap[c.harness]
    known = load_known()
    broken = []; violations = list(pre_violations); known_lines = []
    # ---- translation validation (per run)
    tvs = []
    tv_cases = [c for c in cases if c.tv]
    if tv_cases:
        with ThreadPoolExecutor(max_workers=jobs or NCPU) as ex:
            futs = [(c, ex.submit(translation_validate, c, bdir, seed)) for c in tv_cases]
            for c, f in futs:
                try:
                    r = f.result(); tvs.append(r)
                    if r['diffs']: broken.append('translation validation mismatch in %s: %r' % (c.name, r['diffs'][:2]))
                except Broken as e:
                    broken.append('translation validation build failed for %s: %s' % (c.name, str(e)[:800]))
        log('translation validation: %d harness builds, %d paired runs, %d feasible, %d mismatches' % (
            len(tvs), sum(t['runs'] for t in tvs), sum(t['feasible'] for t in tvs), sum(len(t['diffs']) for t in tvs)))
    # ---- queries
    queries = []; qcase = {}
    for c in cases:
        if not c.cbmc: continue
        kf = [k for k in known.get('findings', []) if k.get('property') == pid and fnmatch.fnmatch(c.name, k.get('case', '*')) and k.get('exclude_def')]
        exdefs = sorted({k['exclude_def'] for k in kf})
        c._kf = kf; c._exdefs = exdefs
        q = c.query(); queries.append(q); qcase[q.name] = (c, 'plain')
        if exdefs:
            q2 = c.query(exdefs, suffix='+excl'); q2.meta['excluded_known_findings'] = [k['id'] for k in kf]
            queries.append(q2); qcase[q2.name] = (c, 'excl')
        if c.cover:
            # reachability of the harness's COVER() goals under the same bounds (cbmc --cover cover, built-in incremental SAT)
            qc = c.query(['COVERAGE'] + exdefs, suffix='+cover', expect='covered'); qc.cover = True; qc.solvers = ['default']; qc.checks = 'none'
            queries.append(qc); qcase[qc.name] = (c, 'cover')
        if c.witness:
            qw = c.query(['WITNESS'] + exdefs, suffix='+witness', expect='fails-witness', witness_of=c.name + ('+excl' if exdefs else ''), timeout=c.witness_timeout)
            queries.append(qw); qcase[qw.name] = (c, 'witness')
    if tier == 'thorough' and budget_s is None:
        # hard admission budget of the thorough tier: queries not started within it are reported as skipped (not explored,
        # no verdict claimed); the admission order is a seeded shuffle of the cases, so that what IS explored is spread
        # over all fixtures and entries (witness/cover/+excl twins stay next to their case)
        budget_s = int(os.environ.get('VERIF_THOROUGH_BUDGET_S', '5400'))
        import random
        order = sorted({qcase[q.name][0].name for q in queries}); random.Random(seed).shuffle(order)
        rank = {n: i for i, n in enumerate(order)}
        queries.sort(key=lambda q: rank[qcase[q.name][0].name])
    log('%s/%s: %d cases -> %d CBMC queries on %d workers%s' % (pid, tier, len(cases), len(queries), jobs or NCPU, (' (admission budget %d s)' % budget_s) if budget_s else ''))
    # coverage-goal queries run after the others, with the loop bounds their case's main query ended up with (cover mode has
    # no unwinding assertions, so it cannot raise a bound by itself)
    first = [q for q in queries if not getattr(q, 'cover', False)]; second = [q for q in queries if getattr(q, 'cover', False)]
    res1 = run_queries(first, logdir, jobs=jobs, budget_s=budget_s)
    final_uws = {}
    for q, r in zip(first, res1):
        if qcase[q.name][1] in ('plain', 'excl') and r.get('unwindset'): final_uws.setdefault(qcase[q.name][0].name, r['unwindset'])
    for q in second:
        u = final_uws.get(qcase[q.name][0].name)
        if u: q.uws_override = u
    res2 = run_queries(second, logdir, jobs=jobs, budget_s=budget_s) if second else []
    bn = {r['name']: r for r in res1 + res2}
    results = [bn[q.name] for q in queries]
    # ---- re-derive the counterexamples of failing queries WITHOUT --slice-formula, in parallel (the sliced trace omits
    # assignments outside the failing assertion's cone of influence, so the nondet stream would be incomplete)
    rq = []; early = {}
    for r in results:
        c, kind = qcase[r['name']]
        if kind not in ('witness', 'cover') and r.get('status') == 'fails' and not any('unwinding assertion' in d for _, d in r.get('failed', [])):
            # first try the (possibly incomplete) trace of the sliced run: when the native run already reproduces an assertion
            # failure, the expensive unsliced re-derivation is not needed
            try:
                rp0 = replay_case(pid, c, r, bdir, c._exdefs if kind == 'excl' else [])
                if rp0.get('reproduced') and not rp0.get('infeasible') and not rp0.get('exhausted'):
                    early[r['name']] = rp0; continue
            except Broken:
                pass
            q2 = c.query(c._exdefs if kind == 'excl' else [], suffix=('+excl' if kind == 'excl' else '') + '+replaytrace'); q2.noslice = True
            rq.append((r['name'], q2))
    retrace = {}
    if rq:
        log('re-deriving %d counterexample traces without slicing for replay' % len(rq))
        for (nm, _), r2 in zip(rq, run_queries([q for _, q in rq], logdir, jobs=jobs)):
            retrace[nm] = r2
    # ---- triage
    byname = {r['name']: r for r in results}
    undecided = []; skipped = []
    for r in results:
        c, kind = qcase[r['name']]
        st = r.get('status')
        if kind == 'cover':
            mainst = (byname.get(c.name + ('+excl' if c._exdefs else '')) or {}).get('status')
            if mainst not in ('holds', 'fails'):
                undecided.append(r['name'])          # the case's own query has no verdict: its final loop bounds are unknown
            elif st == 'uncovered':
                broken.append('coverage goal(s) of %s unreachable (the harness does not exercise what it claims): %s' % (c.name, ['line %s: %s' % (l, d) for l, d, g in r.get('cover', []) if g != 'SATISFIED'][:3]))
            elif st == 'skipped': skipped.append(r['name'])
            elif st != 'covered': undecided.append(r['name'])
            continue
        if kind == 'witness':
            if st == 'holds': broken.append('vacuous harness: witness of %s is unreachable' % c.name)
            elif st == 'skipped': skipped.append(r['name'])
            elif st != 'fails': undecided.append(r['name'])
            elif r.get('failed') and not any('witness' in d for _, d in r['failed']) and \
                    (any('unwinding assertion' in d for _, d in r['failed']) or (byname.get(r.get('witness_of') or c.name) or {}).get('status') == 'holds'):
                # (when the case's own query fails too, the witness run simply stopped at that same violation)
                broken.append('witness of %s failed on something other than the end-of-harness assertion: %s' % (c.name, [d for _, d in r['failed']][:2]))
            else:
                # the witness must be the ONLY thing failing, otherwise it may be masked
                pass
            continue
        if st == 'holds': continue
        if st == 'skipped':
            skipped.append(r['name']); continue
        if st != 'fails':
            undecided.append(r['name']); continue
        descs = [d for _, d in r.get('failed', [])]
        unwind_fail = [d for d in descs if 'unwinding assertion' in d]
        if unwind_fail:
            broken.append('unwinding assertion failed in %s (bound too small: %s)' % (r['name'], unwind_fail[:2])); continue
        exd = c._exdefs if kind == 'excl' else []
        try:
            # the sliced formula's trace omits assignments outside the failing assertion's cone of influence, so the
            # nondet stream would be incomplete: re-derive the counterexample without --slice-formula for the replay
            if r['name'] in early: rp = early[r['name']]
            else:
                r2 = retrace.get(r['name'], {})
                if r2.get('status') == 'fails':
                    r = dict(r); r['log'] = r2['log']; r['failed'] = r2.get('failed', r.get('failed'))
                rp = replay_case(pid, c, r, bdir, exd)
        except Broken as e:
            broken.append('replay build failed for %s: %s' % (r['name'], str(e)[:500])); continue
        r['replay'] = {k: rp.get(k) for k in ('path', 'reproduced', 'native_failed', 'native_rc', 'infeasible', 'exhausted')}
        hits = match_known(known, pid, c.name, descs) if kind == 'plain' else []
        remaining = [d for d in descs if not any(re.search(k.get('assertion', '.'), d) for k in hits)]
        if not rp.get('reproduced'):
            broken.append('counterexample of %s did not reproduce natively (rc=%s infeasible=%s native_failed=%s cbmc_failed=%s) -> encoding or stub error' % (
                r['name'], rp.get('native_rc'), rp.get('infeasible'), rp.get('native_failed'), descs[:3]))
            continue
        for k in hits:
            known_lines.append('KNOWN-FINDING: property=%s %s [%s]' % (pid, k['what'], k['id']))
        if hits and not remaining:
            r['known_finding'] = [k['id'] for k in hits]
            # a different violation of the same property must still be found: decided by the +excl twin
            continue
        if hits and kind == 'plain' and (c.name + '+excl') in byname:
            # other assertions fail in the same run as the known one: the +excl twin decides whether they are independent
            r['known_finding'] = [k['id'] for k in hits]
            continue
        violations.append((c.name, rp['path'], remaining or descs))
    # ---- output
    for ln in sorted(set(known_lines)): log(ln)
    for cn, path, descs in violations:
        log('VIOLATION property=%s replay=%s   # case %s: %s' % (pid, path, cn, '; '.join(descs[:3])))
    for b in broken: log('BROKEN: ' + b)
    main_q = [r for r in results if qcase[r['name']][1] not in ('witness', 'cover')]
    if undecided: log('NO-VERDICT (timeout/memory, not counted as success): ' + ', '.join(undecided[:20]))
    if skipped: log('NOT-EXPLORED (admission budget of the tier exhausted): %d queries, e.g. %s' % (len(skipped), ', '.join(skipped[:6])))
    extra = dict(extra_cov or {})
    extra.update(translation_validation=dict(harness_builds=len(tvs), paired_runs=sum(t['runs'] for t in tvs), feasible_runs=sum(t['feasible'] for t in tvs),
                                             mismatches=sum(len(t['diffs']) for t in tvs)),
                 known_findings_reported=sorted(set(known_lines)), undecided=undecided, not_explored=len(skipped), admission_budget_s=budget_s, broken=broken,
                 functions_encoded=sorted({f for c in cases for f in c.fixture.get('functions', [])})[:400],
                 fixtures=sorted({c.fixture['name'] for c in cases}))
    write_evidence(pid, tier, seed, results, time.time() - t0, len(violations), assumptions, extra, level)
    if not keep and not os.environ.get('VERIF_KEEP'):
        shutil.rmtree(bdir, ignore_errors=True)
    if violations: return 1
    if broken: return 2
    # no clause may be left without a decided query
    if main_q and not any(r.get('status') in ('holds', 'fails') for r in main_q): return 2
    # quick tier: more than half of the admitted queries without a verdict means the machinery is not doing its job;
    # thorough tier (long time-outs, admission budget): only a run in which nothing at all was decided is a fault
    if tier == 'quick' and len(undecided) > (len(main_q) - len([n for n in skipped if not n.endswith('+witness') and not n.endswith('+cover')])) // 2: return 2
    return 0

def generic_replay(path, mod=None):
    """check.py <id> --replay <file>: rebuild the case's fixture from /repo's current tree, compile the harness natively
    against the REAL object code and feed it the recorded nondet stream; exit 1 if the violation reproduces."""
    import importlib
    rp = json.load(open(path)); pid = rp['property']
    if rp.get('kind') == 'compile':
        # a legal structure the real templates refused to compile: compile the recorded translation unit against the current tree
        try:
            build_ir(rp['source'], os.path.join('/tmp', 'vf_replay_%d.ll' % os.getpid()), **rp['build'])
            try: os.remove(os.path.join('/tmp', 'vf_replay_%d.ll' % os.getpid()))
            except OSError: pass
            log('not reproduced on the current tree (the structure compiles)'); return 0
        except Broken as e:
            log('compile error: ' + getattr(e, 'first_error', '?'))
            log('VIOLATION property=%s replay=%s   # reproduced against the real code' % (pid, path)); return 1
    mod = mod or importlib.import_module('props.' + pid.lower())
    os.environ['VERIF_ONLY'] = rp['case']
    found = None
    for tier in ('quick', 'thorough'):
        try: cs = mod.cases(tier)
        except TypeError:
            cs = mod.cases_all(tier) if hasattr(mod, 'cases_all') else []
        if isinstance(cs, tuple): cs = cs[0]
        for c in cs:
            if c.name == rp['case']: found = c; break
        if found: break
    if not found and hasattr(mod, 'replay_case_lookup'): found = mod.replay_case_lookup(rp['case'])
    if not found:
        log('BROKEN: case %s not found in props.%s' % (rp['case'], pid.lower())); return 2
    c2 = Case(found.name + '_rp', found.fixture, found.harness, rp['defs'], native_defs=found.native_defs); c2.fixture_b = found.fixture_b
    exe = native_pair(c2, found.fixture['workdir'])
    rc = 0
    for i, run in enumerate(rp.get('runs', [])):
        r = run_native(exe, inputs=run['inputs'])
        log('replay run %d: native rc=%s failed=%s' % (i, r['rc'], sorted(set(r['fails']))))
        if r['fails'] or (r['rc'] < 0 and r['rc'] != -9): rc = 1
    if rc: log('VIOLATION property=%s replay=%s   # reproduced against the real code' % (pid, path))
    else: log('not reproduced on the current tree')
    return rc
