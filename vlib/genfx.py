#!/usr/bin/env python3
"""Fixture generator: structure term + configuration -> (1) a C++ TU instantiating the REAL HFSM2 templates for that
machine, with every user callback forwarding to extern "C" harness stubs and extern "C" wrappers around the public
API (+ white-box accessors), (2) a C header of structure tables computed INDEPENDENTLY from the term (DFS numbering,
parents, widths, strategies, fork indices ...) used by invariants, reference models, oracles and loop bounds.

term grammar:  node := [KIND['*']':'] NAME ['(' node {',' node} ')']
  KIND: C composite, R resumable, S selectable, U utilitarian, N random (all composite-style), O orthogonal
  '*' = headless region (CompositePeers & co.): NAME then only labels the anonymous head, which still has an id
  the outermost node is the root region, e.g.  C:Apex(A, R:B(B1,B2), O:Or(S:Sx(S1,S2), L))"""
import re

STRAT = {'C': ('Composite', 0), 'R': ('Resumable', 1), 'S': ('Selectable', 2), 'U': ('Utilitarian', 3), 'N': ('Random', 4)}

class Node:
    def __init__(self, kind, name, kids, headless):
        self.kind = kind; self.name = name; self.kids = kids; self.headless = headless
    @property
    def is_region(self): return self.kind != 'L'
    @property
    def is_compo(self): return self.kind in STRAT
    @property
    def is_ortho(self): return self.kind == 'O'

def parse(term):
    toks = re.findall(r'[A-Za-z_][A-Za-z0-9_]*\*?:|[A-Za-z_][A-Za-z0-9_]*|[(),]', term.replace(' ', ''))
    pos = [0]
    def node():
        t = toks[pos[0]]
        kind = 'L'; headless = False
        if t.endswith(':'):
            k = t[:-1]; headless = k.endswith('*'); kind = k.rstrip('*'); pos[0] += 1; t = toks[pos[0]]
            assert kind in STRAT or kind == 'O', 'bad kind ' + kind
        name = t; pos[0] += 1; kids = []
        if pos[0] < len(toks) and toks[pos[0]] == '(':
            pos[0] += 1
            while True:
                kids.append(node())
                if toks[pos[0]] == ',': pos[0] += 1; continue
                assert toks[pos[0]] == ')'; pos[0] += 1; break
        assert (kind == 'L') == (not kids), 'leaf/region mismatch at ' + name
        return Node(kind, name, kids, headless)
    n = node(); assert pos[0] == len(toks), 'trailing tokens'
    assert n.is_region, 'root must be a region'
    return n

class Tables:
    """independent computation of the numbering and counts from the declaration"""
    def __init__(self, root):
        self.root = root; self.states = []
        self.nc = self.no = self.nr = 0; self.ounits = 0
        def walk(n, parent, prong, depth):
            sid = len(self.states); n.sid = sid; n.parent = parent; n.prong = prong; n.depth = depth
            self.states.append(n); n.compo = n.ortho = n.region = -1; n.ounit = -1
            if n.is_region: n.region = self.nr; self.nr += 1
            if n.is_compo: n.compo = self.nc; self.nc += 1
            if n.is_ortho:
                n.ortho = self.no; self.no += 1; n.ounit = self.ounits; self.ounits += (len(n.kids) + 7) // 8
            for i, k in enumerate(n.kids): walk(k, n, i, depth + 1)
            n.size = len(self.states) - sid
        walk(root, None, 0, 0)
        self.ns = len(self.states)
        self.postseq = []
        def post(n):
            for k in n.kids: post(k)
            self.postseq.append(n.sid)
        post(root)
        self.maxw = max(len(n.kids) for n in self.states)
        self.maxdepth = max(n.depth for n in self.states)
        self.compo_prongs = sum(len(n.kids) for n in self.states if n.is_compo)
        # serialization bits (formulas from the declaration: per composite region ceil(log2(width)) active bits, of which
        # only the widest alternative is needed (one sub-state active), orthogonal: all; resumable: all, +1 flag each)
        def bits(w):
            b = 0
            while (1 << b) < w: b += 1
            return b
        def act_bits(n):
            if n.kind == 'L': return 0
            if n.is_compo: return bits(len(n.kids)) + max(act_bits(k) for k in n.kids)
            return sum(act_bits(k) for k in n.kids)
        def res_bits(n):
            if n.kind == 'L': return 0
            return (bits(len(n.kids)) + 1 if n.is_compo else 0) + sum(res_bits(k) for k in n.kids)
        self.active_bits = act_bits(root); self.resumable_bits = res_bits(root)
        self.serial_bits = 1 + self.active_bits + self.resumable_bits
        self.width_bits = [bits(len(n.kids)) if n.is_compo else 0 for n in self.states]

    def nearest_compo(self, n):
        """(compo index, prong) of the nearest composite fork above n, or (-1,-1)"""
        p = n
        while p.parent is not None:
            if p.parent.is_compo: return p.parent.compo, p.prong
            p = p.parent
        return -1, -1

    def c_header(self, opts):
        S = self.states; ns = self.ns
        def arr(name, vals, ty='short'): return 'static const %s %s[%d] = {%s};' % (ty, name, max(len(vals), 1), ', '.join(str(v) for v in vals) or '0')
        L = ['/* generated by vlib/genfx.py from the structure term (independent of the library) */',
             '#define NS %d' % ns, '#define NC %d' % self.nc, '#define NO %d' % self.no, '#define NR %d' % self.nr,
             '#define NOU %d' % self.ounits, '#define MAXW %d' % self.maxw, '#define MAXDEPTH %d' % self.maxdepth,
             '#define COMPO_PRONGS %d' % self.compo_prongs, '#define SERIAL_BITS %d' % self.serial_bits,
             '#define ACTIVE_BITS %d' % self.active_bits, '#define RESUMABLE_BITS %d' % self.resumable_bits,
             '#define SUBLIMIT %d' % (opts.get('sublimit') or 4), '#define TASKCAP %d' % (opts.get('taskcap') or self.compo_prongs * 2),
             '#define ROOT_IS_ORTHO %d' % int(self.root.is_ortho), '#define MANUAL %d' % int(bool(opts.get('manual'))),
             '#define BOTTOMUP %d' % int(bool(opts.get('bottomup'))), '#define HAVE_UTIL %d' % int(bool(opts.get('_util'))), '#define INJECT %d' % int(bool(opts.get('inject'))), '#define HAVE_SERIAL %d' % int(bool(opts.get('_serial'))), '#define HAVE_PLANS %d' % int(bool(opts.get('_plans'))), '#define HAVE_PAYLOAD %d' % int(bool(opts.get('payload'))), '#define TASKCAP_DEFAULT %d' % int(not opts.get('taskcap')),
             arr('st_parent', [n.parent.sid if n.parent else -1 for n in S]),
             arr('st_prong', [n.prong for n in S]),
             arr('st_kind', [0 if n.kind == 'L' else 1 if n.is_compo else 2 for n in S]),
             arr('st_strategy', [STRAT[n.kind][1] if n.is_compo else -1 for n in S]),
             arr('st_width', [len(n.kids) for n in S]),
             arr('st_compo', [n.compo for n in S]), arr('st_ortho', [n.ortho for n in S]), arr('st_region', [n.region for n in S]),
             arr('st_ounit', [n.ounit for n in S]), arr('st_depth', [n.depth for n in S]), arr('st_size', [n.size for n in S]),
             arr('st_headless', [int(n.headless) for n in S]), arr('st_wbits', self.width_bits),
             arr('st_postseq', self.postseq), arr('st_fork', [self.nearest_compo(n)[0] for n in S]), arr('st_fork_prong', [self.nearest_compo(n)[1] for n in S])]
        kids = []
        for n in S: kids.append('{' + ', '.join(str(n.kids[i].sid) if i < len(n.kids) else '-1' for i in range(self.maxw)) + '}')
        L.append('static const short st_child[%d][%d] = {%s};' % (ns, self.maxw, ', '.join(kids)))
        co = [n for n in S if n.is_compo]; orr = [n for n in S if n.is_ortho]; rg = [n for n in S if n.is_region]
        L += [arr('co_head', [n.sid for n in co]), arr('co_width', [len(n.kids) for n in co]), arr('co_strategy', [STRAT[n.kind][1] for n in co]),
              arr('or_head', [n.sid for n in orr]), arr('or_width', [len(n.kids) for n in orr]), arr('or_unit', [n.ounit for n in orr]),
              arr('rg_head', [n.sid for n in rg]), arr('rg_size', [n.size for n in rg])]
        # parent fork records as the library's Parent{forkId, prong}: forkId = compo+1 / -(ortho+1)
        def fork_of(n):
            if n.parent is None: return (-32768, 255)
            p = n.parent
            return ((p.compo + 1) if p.is_compo else -(p.ortho + 1), n.prong)
        L += [arr('st_pfork', [fork_of(n)[0] for n in S], 'int'), arr('st_pprong', [fork_of(n)[1] for n in S]),
              arr('co_pfork', [fork_of(n)[0] for n in co], 'int'), arr('co_pprong', [fork_of(n)[1] for n in co]),
              arr('or_pfork', [fork_of(n)[0] for n in orr], 'int'), arr('or_pprong', [fork_of(n)[1] for n in orr])]
        L.append('static const char* const st_name[%d] = {%s};' % (ns, ', '.join('"%s"' % n.name for n in S)))
        return '\n'.join(L) + '\n'

FEATURE_MACROS = {'PLANS': 'HFSM2_ENABLE_PLANS', 'SERIALIZATION': 'HFSM2_ENABLE_SERIALIZATION', 'TRANSITION_HISTORY': 'HFSM2_ENABLE_TRANSITION_HISTORY',
                  'STRUCTURE_REPORT': 'HFSM2_ENABLE_STRUCTURE_REPORT', 'LOG_INTERFACE': 'HFSM2_ENABLE_LOG_INTERFACE', 'UTILITY_THEORY': 'HFSM2_ENABLE_UTILITY_THEORY',
                  'VERBOSE_DEBUG_LOG': 'HFSM2_ENABLE_VERBOSE_DEBUG_LOG', 'ASSERT': 'HFSM2_ENABLE_ASSERT', 'ALL': 'HFSM2_ENABLE_ALL', 'VERIF': 'HFSM2_VERIF'}

def cpp_type(n, M='M'):
    if n.kind == 'L': return 'S(%s)' % n.name
    if n.is_ortho: base = 'Orthogonal'
    else: base = STRAT[n.kind][0]
    kids = ', '.join(cpp_type(k, M) for k in n.kids)
    if n.headless: return '%s::%sPeers<%s>' % (M, base, kids)
    return '%s::%s<S(%s), %s>' % (M, base, n.name, kids)

def root_type(n):
    base = {'C': 'Root', 'R': 'ResumableRoot', 'S': 'SelectableRoot', 'U': 'UtilitarianRoot', 'N': 'RandomRoot', 'O': 'OrthogonalRoot'}[n.kind]
    pbase = {'C': 'PeerRoot', 'R': 'ResumablePeerRoot', 'S': 'SelectablePeerRoot', 'U': 'UtilitarianPeerRoot', 'N': 'RandomPeerRoot', 'O': 'OrthogonalPeerRoot'}[n.kind]
    kids = ', '.join(cpp_type(k) for k in n.kids)
    if n.headless: return 'M::%s<%s>' % (pbase, kids)
    return 'M::%s<S(%s), %s>' % (base, n.name, kids)

def generate(term, opts=None):
    """returns (cpp_text, tables_h_text, clang_defs, Tables)"""
    o = dict(opts or {}); root = parse(term); T = Tables(root)
    feats = list(o.get('features', []))
    uses_util = any(n.kind in 'UN' for n in T.states)
    if (uses_util or o.get('rng')) and 'UTILITY_THEORY' not in feats and 'ALL' not in feats: feats.append('UTILITY_THEORY')
    ALLSET = ('PLANS', 'SERIALIZATION', 'STRUCTURE_REPORT', 'TRANSITION_HISTORY', 'UTILITY_THEORY')   # what HFSM2_ENABLE_ALL turns on
    has = lambda f: f in feats or ('ALL' in feats and f in ALLSET)
    util = has('UTILITY_THEORY'); plans = has('PLANS'); serial = has('SERIALIZATION'); hist = has('TRANSITION_HISTORY')
    logi = has('LOG_INTERFACE') or has('VERBOSE_DEBUG_LOG'); srep = has('STRUCTURE_REPORT')
    rng = o.get('rng') or ('stub' if util else None)
    cfg = 'hfsm2::Config'
    if o.get('manual'): cfg += '::ManualActivation'
    if o.get('bottomup'): cfg += '::BottomUpReactions'
    if util and rng == 'stub': cfg += '::RandomT<StubRNG>'
    if o.get('sublimit'): cfg += '::SubstitutionLimitN<%d>' % o['sublimit']
    if plans and o.get('taskcap'): cfg += '::TaskCapacityN<%d>' % o['taskcap']
    payload = o.get('payload')
    if payload: cfg += '::PayloadT<Payload>'
    cb = set(o.get('callbacks', ['guard', 'life', 'update']))      # which callbacks exist at all
    act = set(o.get('act', ['guard', 'update']))                   # which of them may issue requests
    kinds = o.get('kinds', 0x8e if not util else 0xfe)             # bit k set = request kind k may be issued from callbacks (1..7)
    L = []
    for f in feats: L.append('#define %s' % FEATURE_MACROS[f])
    L.append('#include <hfsm2/%s>' % ('machine.hpp' if o.get('flavour', 'single') == 'single' else 'machine_dev.hpp'))
    L.append('#include <new>')
    L.append('''
extern "C" int      vf_cb(int state, int method, const void* self);
extern "C" unsigned vf_select(int state);
extern "C" int      vf_rank(int state);
extern "C" float    vf_utility(int state);
extern "C" float    vf_rng(void);
extern "C" unsigned vf_payload(int state, int method);
extern "C" void     vf_log(int kind, int a, int b, int c);
extern "C" void     vf_obs(int what, int a, int b, const void* p);
struct StubRNG { float next() noexcept { return vf_rng(); } };
''')
    if payload == 'u32': L.append('using Payload = uint32_t;')
    elif payload == 'big': L.append('struct Payload { uint8_t a; alignas(16) uint64_t b[2]; };')
    elif payload == 'c5': L.append('struct Payload { char c[5]; };')
    L.append('using Config = %s;' % cfg)
    L.append('using M = hfsm2::MachineT<Config>;')
    L.append('#define S(s) struct s')
    L.append('using FSM = %s;' % root_type(root))
    L.append('#undef S')
    L.append('struct Ev { int id; };')
    L.append('using VControl = FSM::State::Control; using VPlanControl = FSM::State::PlanControl; using VFullControl = FSM::State::FullControl;')
    L.append('using VGuardControl = FSM::State::GuardControl; using VEventControl = FSM::State::EventControl; using VConstControl = FSM::State::ConstControl;')
    L.append('enum { KINDS = 0x%x };' % kinds)
    inj = o.get('inject')
    L.append('''
template <typename TC>
static inline void vf_act(TC& c, int d) {
    if (d <= 0) return;
    const hfsm2::StateID dest = (hfsm2::StateID)(d & 0xff);
    switch ((d >> 8) & 0xf) {''')
    names = {1: 'changeTo', 2: 'restart', 3: 'resume', 4: 'select', 5: 'utilize', 6: 'randomize', 7: 'schedule'}
    for k in range(1, 8):
        if not (kinds >> k) & 1: continue
        if k in (5, 6) and not util: continue
        if payload:
            wn = {1: 'changeWith', 2: 'restartWith', 3: 'resumeWith', 4: 'selectWith', 5: 'utilizeWith', 6: 'randomizeWith', 7: 'scheduleWith'}[k]
            L.append('    case %d: if (d & 0x4000) { %s } else c.%s(dest); break;' % (k, payload_call('c.' + wn, 'dest', payload), names[k]))
        else:
            L.append('    case %d: c.%s(dest); break;' % (k, names[k]))
    L.append('    default: break;\n    }')
    if plans: L.append('    if ((d & 0xf000) == 0x1000) c.succeed(); else if ((d & 0xf000) == 0x2000) c.fail();')
    L.append('}')
    def body(group, meth, ctl, kind):
        # kind: 'guard' (may cancel), 'full' (may request), 'event' (may consume+request), 'plain' (event only), 'query'
        if kind == 'guard' and payload:
            return '{ { const auto& pt = c.pendingTransitions(); for (unsigned i = 0; i < pt.count(); ++i) vf_obs(1, (int)(i | ((unsigned)pt[i].destination << 8) | ((unsigned)pt[i].type << 24)), (int)rd_payload(pt[i].payload()), this); } int d = vf_cb(ID, %d, this); if (d == -1) c.cancelPendingTransitions(); else vf_act(c, d); }' % meth
        if kind == 'plain' and payload and meth == 5:
            return '{ { const auto& ct = c.currentTransitions(); for (unsigned i = 0; i < ct.count(); ++i) vf_obs(2, (int)(i | ((unsigned)ct[i].destination << 8) | ((unsigned)ct[i].type << 24)), (int)rd_payload(ct[i].payload()), this); } vf_cb(ID, %d, this); }' % meth
        if kind == 'guard':
            if 'guard' in act: return '{ int d = vf_cb(ID, %d, this); if (d == -1) c.cancelPendingTransitions(); else vf_act(c, d); }' % meth
            return '{ int d = vf_cb(ID, %d, this); if (d == -1) c.cancelPendingTransitions(); }' % meth
        if kind == 'full':
            if group in act: return '{ vf_act(c, vf_cb(ID, %d, this)); }' % meth
            return '{ (void)c; vf_cb(ID, %d, this); }' % meth
        if kind == 'event':
            if group in act: return '{ int d = vf_cb(ID, %d, this); if (d == 0x3000) c.consumeEvent(); else vf_act(c, d); }' % meth
            return '{ int d = vf_cb(ID, %d, this); if (d == 0x3000) c.consumeEvent(); }' % meth
        if kind == 'query': return '{ int d = vf_cb(ID, %d, this); if (d == 0x3000) c.consumeQuery(); }' % meth
        return '{ (void)c; vf_cb(ID, %d, this); }' % meth
    def base_class(name, idexpr, parent):
        B = ['template <int ID> struct %s : %s {' % (name, parent)] if idexpr is None else []
        return B
    def callbacks(off=0):
        # off: method-number offset so injected handlers are distinguishable (off=32 / 64)
        B = []
        m = lambda x: x + off
        if 'select' in cb and off == 0: B.append('    hfsm2::Prong select(const VControl&) noexcept { return (hfsm2::Prong)vf_select(ID); }')
        if 'util' in cb and util and off == 0:
            B.append('    typename Config::Rank rank(const VControl&) noexcept { return (typename Config::Rank)vf_rank(ID); }')
            B.append('    typename Config::Utility utility(const VControl&) noexcept { return vf_utility(ID); }')
        if 'guard' in cb:
            B.append('    void entryGuard(VGuardControl& c) noexcept ' + body('guard', m(4), 'c', 'guard'))
            B.append('    void exitGuard(VGuardControl& c) noexcept ' + body('guard', m(14), 'c', 'guard'))
        if 'life' in cb:
            B.append('    void enter(VPlanControl& c) noexcept ' + body('life', m(5), 'c', 'plain'))
            B.append('    void reenter(VPlanControl& c) noexcept ' + body('life', m(6), 'c', 'plain'))
            B.append('    void exit(VPlanControl& c) noexcept ' + body('life', m(15), 'c', 'plain'))
        if 'update1' in cb:
            B.append('    void update(VFullControl& c) noexcept ' + body('update', m(8), 'c', 'full'))
        if 'update' in cb:
            B.append('    void preUpdate(VFullControl& c) noexcept ' + body('preupdate', m(7), 'c', 'full'))
            B.append('    void update(VFullControl& c) noexcept ' + body('update', m(8), 'c', 'full'))
            B.append('    void postUpdate(VFullControl& c) noexcept ' + body('postupdate', m(9), 'c', 'full'))
        if 'react' in cb:
            B.append('    void preReact(const Ev&, VEventControl& c) noexcept ' + body('react', m(10), 'c', 'event'))
            B.append('    void react(const Ev&, VEventControl& c) noexcept ' + body('react', m(11), 'c', 'event'))
            B.append('    void postReact(const Ev&, VEventControl& c) noexcept ' + body('react', m(13), 'c', 'event'))
        if 'query' in cb:
            B.append('    void query(Ev&, VConstControl& c) const noexcept ' + body('query', m(12), 'c', 'query'))
        if 'plan' in cb and plans and off == 0:
            B.append('    void planSucceeded(VFullControl& c) noexcept { int d = vf_cb(ID, 16, this); if (d != 0x5000) FSM::State::planSucceeded(c); vf_act(c, d & 0x0fff); }')
            B.append('    void planFailed(VFullControl& c) noexcept { int d = vf_cb(ID, 17, this); if (d != 0x5000) FSM::State::planFailed(c); vf_act(c, d & 0x0fff); }')
        return B
    if inj:
        L.append('template <int ID> struct Inj1 : FSM::State {'); L += callbacks(32); L.append('};')
        L.append('template <int ID> struct Inj2 : FSM::State {'); L += callbacks(64); L.append('};')
        L.append('template <int ID> struct Base : FSM::StateT<Inj1<ID>, Inj2<ID>> {')
    else:
        L.append('template <int ID> struct Base : FSM::State {')
    L += callbacks(0); L.append('};')
    user = [n for n in T.states if not n.headless]
    for n in user: L.append('struct %s : Base<%d> {};' % (n.name, n.sid))
    # static facts exported for C17
    L.append('using Inst = FSM::Instance;')
    L.append('struct VfInst { Inst v; };')
    if logi:
        L.append('''
struct VfLogger : M::LoggerInterface {
    using typename M::LoggerInterface::Context; using StateID = hfsm2::StateID; using RegionID = hfsm2::RegionID;
    void recordMethod(const Context&, const StateID origin, const hfsm2::Method method) noexcept override { vf_log(0, origin, (int)method, 0); }
    void recordTransition(const Context&, const StateID origin, const hfsm2::TransitionType t, const StateID target) noexcept override { vf_log(1, origin, (int)t, target); }''')
        if plans: L.append('''    void recordTaskStatus(const Context&, const RegionID region, const StateID origin, const hfsm2::StatusEvent e) noexcept override { vf_log(2, region, origin, (int)e); }
    void recordPlanStatus(const Context&, const RegionID region, const hfsm2::StatusEvent e) noexcept override { vf_log(3, region, (int)e, 0); }''')
        L.append('    void recordCancelledPending(const Context&, const StateID origin) noexcept override { vf_log(4, origin, 0, 0); }')
        L.append('    void recordSelectResolution(const Context&, const StateID head, const hfsm2::Prong prong) noexcept override { vf_log(5, head, prong, 0); }')
        if util: L.append('''    void recordUtilityResolution(const Context&, const StateID head, const hfsm2::Prong prong, const typename Config::Utility u) noexcept override { vf_log(6, head, prong, (int)(u * 1024.0f)); }
    void recordRandomResolution(const Context&, const StateID head, const hfsm2::Prong prong, const typename Config::Utility u) noexcept override { vf_log(7, head, prong, (int)(u * 1024.0f)); }''')
        L.append('};\nstruct VfLog { VfLogger v; };')
    ctor_args = []
    if util and rng == 'stub': ctor_args.append('g_rng')
    W = 'extern "C" __attribute__((noinline))'
    FP = o.get('fnprefix', '')
    L.append('static StubRNG g_rng;')
    L.append('%s unsigned vf_sizeof(void) { return sizeof(VfInst); }' % W)
    if logi:
        L.append('%s void vf_logger_construct(VfLog* l) { new (&l->v) VfLogger(); }' % W)
        L.append('%s void vf_construct(VfInst* m, VfLog* l) { new (&m->v) Inst(%s); }' % (W, ', '.join(ctor_args + ['l ? &l->v : nullptr'])))
        L.append('%s void vf_attach_logger(VfInst* m, VfLog* l) { m->v.attachLogger(l ? &l->v : nullptr); }' % W)
    else:
        L.append('%s void vf_construct(VfInst* m) { new (&m->v) Inst(%s); }' % (W, ', '.join(ctor_args)))
    L.append('%s void vf_destroy(VfInst* m) { m->v.~Inst(); }' % W)
    L.append('%s void vf_copy(VfInst* dst, const VfInst* src) { new (&dst->v) Inst(src->v); }' % W)
    L.append('%s void vf_update(VfInst* m) { m->v.update(); }' % W)
    if 'react' in cb: L.append('%s void vf_react(VfInst* m, int id) { Ev e{id}; m->v.react(e); }' % W)
    if 'query' in cb: L.append('%s void vf_query(VfInst* m, int id) { Ev e{id}; m->v.query(e); }' % W)
    if o.get('manual'):
        L.append('%s void vf_enter(VfInst* m) { m->v.enter(); }' % W)
        L.append('%s void vf_exit(VfInst* m) { m->v.exit(); }' % W)
    L.append('%s void vf_reset(VfInst* m) { m->v.reset(); }' % W)
    L.append('%s void vf_request(VfInst* m, unsigned kind, unsigned s) { const hfsm2::StateID d = (hfsm2::StateID)s; switch (kind) {' % W)
    for k in range(1, 8):
        if k in (5, 6) and not util: continue
        L.append('    case %d: m->v.%s(d); break;' % (k, names[k]))
    L.append('    default: break; } }')
    for k in range(1, 7):
        if k in (5, 6) and not util: continue
        nm = 'immediate' + names[k][0].upper() + names[k][1:]
        L.append('%s void vf_imm%d(VfInst* m, unsigned s) { m->v.%s((hfsm2::StateID)s); }' % (W, k, nm))
    if payload:
        L.append('%s void vf_request_with(VfInst* m, unsigned kind, unsigned s, unsigned pv) { const hfsm2::StateID d = (hfsm2::StateID)s; Payload p = mk_payload(pv); switch (kind) {' % W)
        wn = {1: 'changeWith', 2: 'restartWith', 3: 'resumeWith', 4: 'selectWith', 5: 'utilizeWith', 6: 'randomizeWith', 7: 'scheduleWith'}
        for k in range(1, 8):
            if k in (5, 6) and not util: continue
            L.append('    case %d: m->v.%s(d, p); break;' % (k, wn[k]))
        L.append('    default: break; } }')
    L.append('%s int vf_is_active(const VfInst* m, unsigned s) { return m->v.isActive((hfsm2::StateID)s); }' % W)
    L.append('%s int vf_is_resumable(const VfInst* m, unsigned s) { return m->v.isResumable((hfsm2::StateID)s); }' % W)
    L.append('%s int vf_is_scheduled(const VfInst* m, unsigned s) { return m->v.isScheduled((hfsm2::StateID)s); }' % W)
    L.append('%s unsigned vf_active_sub(const VfInst* m, unsigned s) { return m->v.activeSubState((hfsm2::StateID)s); }' % W)
    L.append('%s int vf_pending_change(const VfInst* m, unsigned s) { return m->v.isPendingChange((hfsm2::StateID)s); }' % W)
    L.append('%s int vf_pending_enter(const VfInst* m, unsigned s) { return m->v.isPendingEnter((hfsm2::StateID)s); }' % W)
    L.append('%s int vf_pending_exit(const VfInst* m, unsigned s) { return m->v.isPendingExit((hfsm2::StateID)s); }' % W)
    # white-box accessors
    L.append('%s unsigned char* vf_compo_active(VfInst* m) { return &m->v._core.registry.compoActive[0]; }' % W)
    L.append('%s unsigned char* vf_compo_resumable(VfInst* m) { return &m->v._core.registry.compoResumable[0]; }' % W)
    L.append('%s unsigned char* vf_compo_requested(VfInst* m) { return &m->v._core.registry.compoRequested[0]; }' % W)
    L.append('%s unsigned char* vf_compo_remains(VfInst* m) { return &m->v._core.registry.compoRemains._storage[0]; }' % W)
    if T.no: L.append('%s unsigned char* vf_ortho_requested(VfInst* m) { return &m->v._core.registry.orthoRequested._storage[0]; }' % W)
    L.append('%s unsigned vf_requests_count(VfInst* m) { return m->v._core.requests.count(); }' % W)
    L.append('%s void vf_requests_clear(VfInst* m) { m->v._core.requests.clear(); }' % W)
    L.append('%s unsigned vf_request_dest(VfInst* m, unsigned i) { return m->v._core.requests[i].destination; }' % W)
    L.append('%s unsigned vf_request_type(VfInst* m, unsigned i) { return (unsigned)m->v._core.requests[i].type; }' % W)
    L.append('%s unsigned vf_request_origin(VfInst* m, unsigned i) { return m->v._core.requests[i].origin; }' % W)
    # run-time structure tables (C17)
    L.append('%s int vf_rt_state_parent_fork(VfInst* m, unsigned s) { return m->v._core.registry.stateParents[s].forkId; }' % W)
    L.append('%s unsigned vf_rt_state_parent_prong(VfInst* m, unsigned s) { return m->v._core.registry.stateParents[s].prong; }' % W)
    L.append('%s int vf_rt_compo_parent_fork(VfInst* m, unsigned c) { return m->v._core.registry.compoParents[c].forkId; }' % W)
    L.append('%s unsigned vf_rt_compo_parent_prong(VfInst* m, unsigned c) { return m->v._core.registry.compoParents[c].prong; }' % W)
    if T.no:
        L.append('%s int vf_rt_ortho_parent_fork(VfInst* m, unsigned c) { return m->v._core.registry.orthoParents[c].forkId; }' % W)
        L.append('%s unsigned vf_rt_ortho_parent_prong(VfInst* m, unsigned c) { return m->v._core.registry.orthoParents[c].prong; }' % W)
        L.append('%s unsigned vf_rt_ortho_unit(VfInst* m, unsigned c) { return m->v._core.registry.orthoUnits[c].unit; }' % W)
        L.append('%s unsigned vf_rt_ortho_width(VfInst* m, unsigned c) { return m->v._core.registry.orthoUnits[c].width; }' % W)
    L.append('%s unsigned vf_rt_region_head(VfInst* m, unsigned r) { return m->v._core.registry.regionHeads[r]; }' % W)
    L.append('%s unsigned vf_rt_region_size(VfInst* m, unsigned r) { return m->v._core.registry.regionSizes[r]; }' % W)
    # compile-time facts
    L.append('%s unsigned vf_ct(unsigned what) { switch (what) {' % W)
    L.append('    case 0: return FSM::STATE_COUNT; case 1: return FSM::REGION_COUNT; case 2: return FSM::COMPO_COUNT; case 3: return FSM::ORTHO_COUNT; case 4: return FSM::ORTHO_UNITS;')
    L.append('    case 5: return FSM::SUBSTITUTION_LIMIT;')
    if serial: L.append('    case 6: return FSM::SERIAL_BITS; case 7: return FSM::ACTIVE_BITS; case 8: return FSM::RESUMABLE_BITS;')
    if plans: L.append('    case 9: return FSM::TASK_CAPACITY;')
    L.append('    case 10: return FSM::Apex::COMPO_PRONGS; case 11: return FSM::Apex::WIDTH;')
    L.append('    default: return 0xffffffffu; } }')
    L.append('%s unsigned vf_ct_state_id(unsigned s) { switch (s) {' % W)
    for n in user: L.append('    case %d: return FSM::stateId<%s>();' % (n.sid, n.name))
    L.append('    default: return 0xffffu; } }')
    L.append('%s unsigned vf_ct_region_id(unsigned s) { switch (s) {' % W)
    for n in user:
        if n.is_region: L.append('    case %d: return FSM::regionId<%s>();' % (n.sid, n.name))
    L.append('    default: return 0xffu; } }')
    L.append('%s const void* vf_access(VfInst* m, unsigned s) { switch (s) {' % W)
    for n in user: L.append('    case %d: return &m->v.access<%s>();' % (n.sid, n.name))
    L.append('    default: return nullptr; } }')
    if serial:
        L.append('struct VfBuf { Inst::SerialBuffer v; };')
        L.append('%s void vf_buf_init(VfBuf* b) { new (&b->v) Inst::SerialBuffer(); }' % W)
        L.append('%s void vf_save(const VfInst* m, VfBuf* b) { m->v.save(b->v); }' % W)
        L.append('%s void vf_load(VfInst* m, const VfBuf* b) { m->v.load(b->v); }' % W)
        L.append('%s int vf_buf_eq(const VfBuf* a, const VfBuf* b) { return a->v == b->v; }' % W)
        L.append('%s unsigned vf_buf_bytes(void) { return sizeof(VfBuf); }' % W)
        L.append('%s unsigned char* vf_buf_data(VfBuf* b) { return &b->v.data()[0]; }' % W)
    if hist:
        L.append('%s unsigned vf_prev_count(const VfInst* m) { return m->v.previousTransitions().count(); }' % W)
        L.append('%s unsigned vf_prev_dest(const VfInst* m, unsigned i) { return m->v.previousTransitions()[i].destination; }' % W)
        L.append('%s unsigned vf_prev_type(const VfInst* m, unsigned i) { return (unsigned)m->v.previousTransitions()[i].type; }' % W)
        L.append('%s unsigned vf_prev_origin(const VfInst* m, unsigned i) { return m->v.previousTransitions()[i].origin; }' % W)
        if payload:
            L.append('%s unsigned vf_prev_payload(const VfInst* m, unsigned i) { return rd_payload(m->v.previousTransitions()[i].payload()); }' % W)
            L.append('%s unsigned vf_last_to_payload(const VfInst* m, unsigned s) { const Inst::Transition* t = m->v.lastTransitionTo((hfsm2::StateID)s); return t ? rd_payload(t->payload()) : 0xfffffffcu; }' % W)
        L.append('%s int vf_last_to(const VfInst* m, unsigned s) { const Inst::Transition* t = m->v.lastTransitionTo((hfsm2::StateID)s); return t ? (int)(t - &m->v.previousTransitions()[0]) : -1; }' % W)
        L.append('%s unsigned vf_target_index(VfInst* m, unsigned s) { return m->v._core.transitionTargets[s]; }' % W)
        L.append('%s int vf_replay_prev(VfInst* dst, const VfInst* src) { return dst->v.replayTransitions(src->v.previousTransitions()); }' % W)
        L.append('%s int vf_replay_n(VfInst* dst, const VfInst* src, unsigned n) { return n ? dst->v.replayTransitions(&src->v.previousTransitions()[0], (hfsm2::Short)n) : 0; }' % W)
        L.append('%s int vf_replay_many(VfInst* m, unsigned n, unsigned d0, unsigned k0, unsigned d1, unsigned k1) { Inst::Transition t[16]; for (unsigned i = 0; i < 16; ++i) t[i] = Inst::Transition{(hfsm2::StateID)((i & 1) ? d1 : d0), (hfsm2::TransitionType)((i & 1) ? k1 : k0)}; return m->v.replayTransitions(t, (hfsm2::Short)n); }' % W)
        if o.get('manual'):
            L.append('%s int vf_replay_enter(VfInst* dst, const VfInst* src) { return src->v.previousTransitions().count() ? dst->v.replayEnter(src->v.previousTransitions()) : 0; }' % W)
    if srep:
        L.append('%s int vf_structure_active(const VfInst* m, unsigned i) { return m->v.structure()[i].isActive; }' % W)
        L.append('%s int vf_activity(const VfInst* m, unsigned i) { return m->v.activityHistory()[i]; }' % W)
        L.append('%s signed char* vf_activity_raw(VfInst* m) { return &m->v._activityHistory[0]; }' % W)
        L.append('%s unsigned char* vf_structure_active_raw(VfInst* m, unsigned i) { return reinterpret_cast<unsigned char*>(&m->v._structure[i].isActive); }' % W)
    if plans:
        # update() without its final processRequest(): the update phases and the plan processing run on the real code, the
        # requests they issue stay in the queue for inspection (drives the plan executor as a unit)
        L.append('%s void vf_update_plans_only(VfInst* m) { typename Inst::TransitionSets empty; typename Inst::FullControl control{m->v._core, empty}; m->v._apex.deepPreUpdate(control); m->v._apex.deepUpdate(control); m->v._apex.deepPostUpdate(control); m->v._apex.deepUpdatePlans(control); m->v._core.planData.clearStatuses(); }' % W)
        L.append('%s int vf_plan_append(VfInst* m, unsigned region, unsigned o, unsigned d, unsigned kind) { auto p = m->v.plan((hfsm2::RegionID)region); const hfsm2::StateID O = (hfsm2::StateID)o, D = (hfsm2::StateID)d; switch (kind) {' % W)
        pn = {1: 'change', 2: 'restart', 3: 'resume', 4: 'select', 5: 'utilize', 6: 'randomize', 7: 'schedule'}
        for k in range(1, 8):
            if k in (5, 6) and not util: continue
            L.append('    case %d: return p.%s(O, D);' % (k, pn[k]))
        L.append('    default: return 0; } }')
        if payload:
            L.append('%s int vf_plan_append_with(VfInst* m, unsigned region, unsigned o, unsigned d, unsigned kind, unsigned pv) { auto p = m->v.plan((hfsm2::RegionID)region); const hfsm2::StateID O = (hfsm2::StateID)o, D = (hfsm2::StateID)d; Payload pl = mk_payload(pv); switch (kind) {' % W)
            pw = {1: 'changeWith', 2: 'restartWith', 3: 'resumeWith', 4: 'selectWith', 5: 'utilizeWith', 6: 'randomizeWith', 7: 'scheduleWith'}
            for k in range(1, 8):
                if k in (5, 6) and not util: continue
                L.append('    case %d: return p.%s(O, D, pl);' % (k, pw[k]))
            L.append('    default: return 0; } }')
        if payload:
            L.append('%s unsigned vf_plan_item_payload(VfInst* m, unsigned region, unsigned idx) { unsigned n = 0; auto p = m->v.plan((hfsm2::RegionID)region); for (auto it = p.begin(); it; ++it, ++n) if (n == idx) return rd_payload(it->payload()); return 0xfffffffdu; }' % W)
            L.append('%s unsigned vf_request_payload(VfInst* m, unsigned i) { return rd_payload(m->v._core.requests[i].payload()); }' % W)
        L.append('%s void vf_plan_clear(VfInst* m, unsigned region) { m->v.plan((hfsm2::RegionID)region).clear(); }' % W)
        L.append('%s unsigned vf_plan_len(VfInst* m, unsigned region) { unsigned n = 0; auto p = m->v.plan((hfsm2::RegionID)region); for (auto it = p.begin(); it; ++it) ++n; return n; }' % W)
        L.append('%s unsigned vf_plan_item(VfInst* m, unsigned region, unsigned idx, unsigned what) { unsigned n = 0; auto p = m->v.plan((hfsm2::RegionID)region); for (auto it = p.begin(); it; ++it, ++n) if (n == idx) return what == 0 ? it->origin : what == 1 ? it->destination : (unsigned)it->type; return 0xffffffffu; }' % W)
        L.append('%s void vf_plan_remove_nth(VfInst* m, unsigned region, unsigned idx) { unsigned n = 0; auto p = m->v.plan((hfsm2::RegionID)region); for (auto it = p.begin(); it; ++it, ++n) if (n == idx) it.remove(); }' % W)
        L.append('%s unsigned vf_task_count(VfInst* m) { return m->v._core.planData.tasks.count(); }' % W)
        L.append('%s int vf_plan_exists(VfInst* m, unsigned region) { return m->v._core.planData.planExists.get(region); }' % W)
        L.append('%s void vf_plan_exists_set(VfInst* m, unsigned region, int v) { if (v) m->v._core.planData.planExists.set(region); else m->v._core.planData.planExists.clear(region); }' % W)
        L.append('%s int vf_task_success(VfInst* m, unsigned s) { return m->v._core.planData.tasksSuccesses.get(s); }' % W)
        L.append('%s int vf_task_failure(VfInst* m, unsigned s) { return m->v._core.planData.tasksFailures.get(s); }' % W)
        L.append('%s void vf_succeed(VfInst* m, unsigned s) { m->v.succeed((hfsm2::StateID)s); }' % W)
        L.append('%s void vf_fail(VfInst* m, unsigned s) { m->v.fail((hfsm2::StateID)s); }' % W)
        L.append('%s unsigned vf_task_bounds(VfInst* m, unsigned region, unsigned w) { return w ? m->v._core.planData.taskBounds[region].last : m->v._core.planData.taskBounds[region].first; }' % W)
    o['_util'] = util; o['_serial'] = serial; o['_plans'] = plans
    txt = '\n'.join(L) + '\n'
    if FP:
        import re as _re
        stubs = ('vf_cb', 'vf_select', 'vf_rank', 'vf_utility', 'vf_rng', 'vf_payload', 'vf_log', 'vf_obs', 'vf_act')
        txt = _re.sub(r'\bvf_([a-z_0-9]+)\b', lambda m: m.group(0) if m.group(0) in stubs else FP + m.group(0), txt)
        # user types live in a per-configuration namespace so two configurations can be linked into one native binary
        head, sep, rest = txt.partition('extern "C" int      vf_cb')
        txt = head + sep + rest
        i = txt.index('struct StubRNG'); txt = txt[:i] + 'namespace %sns {\n' % FP + txt[i:] + '\n} // namespace\n'
    if payload:
        mk = {'u32': 'static inline Payload mk_payload(unsigned v) { return (Payload)v; }\nstatic inline unsigned rd_payload(const Payload* p) { return p ? (unsigned)*p : 0xfffffffeu; }',
              'big': 'static inline Payload mk_payload(unsigned v) { Payload p; p.a = (uint8_t)v; p.b[0] = v * 0x100000001ull; p.b[1] = ~(uint64_t)v; return p; }\nstatic inline unsigned rd_payload(const Payload* p) { if (!p) return 0xfffffffeu; unsigned v = (unsigned)(p->b[0] & 0xffffffffu); return (p->a == (uint8_t)v && p->b[0] == v * 0x100000001ull && p->b[1] == ~(uint64_t)v) ? v : 0xfffffffdu; }',
              'c5': 'static inline Payload mk_payload(unsigned v) { Payload p; for (int i = 0; i < 4; ++i) p.c[i] = (char)(v >> (8 * i)); p.c[4] = (char)(v ^ (v >> 8)); return p; }\nstatic inline unsigned rd_payload(const Payload* p) { if (!p) return 0xfffffffeu; unsigned v = 0; for (int i = 0; i < 4; ++i) v |= (unsigned)(unsigned char)p->c[i] << (8 * i); return p->c[4] == (char)(v ^ (v >> 8)) ? v : 0xfffffffdu; }'}[payload]
        txt = txt.replace('using Config = ', mk.replace('Payload', 'Payload') + '\nusing Config = ', 1) if False else txt.replace('struct Ev { int id; };', 'struct Ev { int id; };\n' + mk, 1)
    defs = []
    return txt, T.c_header(o), defs, T

def payload_call(fn, dest, payload):
    return '%s(%s, mk_payload(vf_payload((int)%s, 0)));' % (fn, dest, dest)

if __name__ == '__main__':
    import sys
    cpp, h, d, T = generate(sys.argv[1], eval(sys.argv[2]) if len(sys.argv) > 2 else {})
    print(cpp); print('/*'); print(h); print('*/')
