#!/usr/bin/env python3
"""Common machinery: real header -> clang IR -> ll2c C -> CBMC queries; result parsing;
native replay of counterexamples against the real (g++/clang++-compiled) code; evidence."""
import os, re, sys, json, time, subprocess, shutil, threading, hashlib, resource
from concurrent.futures import ThreadPoolExecutor, as_completed

VERIF = os.path.dirname(os.path.dirname(os.path.abspath(__file__)))
REPO = os.environ.get('VERIF_REPO', '/repo')
BUILD = os.path.join(VERIF, 'build' + os.environ.get('VERIF_BUILD_TAG', ''))
REPLAYS = os.path.join(VERIF, 'replays' + os.environ.get('VERIF_BUILD_TAG', ''))
sys.path.insert(0, os.path.join(VERIF, 'vlib'))
import ll2c

CLANG_FLAGS = ['-O1', '-fno-vectorize', '-fno-slp-vectorize', '-fno-unroll-loops', '-fno-exceptions',
               '-fno-access-control', '-w']
NCPU = int(os.environ.get('VERIF_JOBS', str(os.cpu_count() or 8)))

def log(*a):
    print(*a, flush=True)

def sh(cmd, timeout=None, cwd=None, env=None, stdin=None):
    t0 = time.time()
    try:
        p = subprocess.run(cmd, cwd=cwd, env=env, timeout=timeout, stdout=subprocess.PIPE, stderr=subprocess.STDOUT,
                           input=stdin, universal_newlines=True, errors='replace')
        return p.returncode, p.stdout, time.time() - t0
    except subprocess.TimeoutExpired as e:
        out = e.stdout or ''
        if isinstance(out, bytes): out = out.decode('utf8', 'replace')
        return -9, out, time.time() - t0

MEM_BUDGET_GB = float(os.environ.get('VERIF_MEM_GB', '44'))

class Broken(Exception):
    """machinery fault (never a violation)"""

def include_dir(flavour='single'):
    return os.path.join(REPO, 'include') if flavour == 'single' else os.path.join(REPO, 'development')

def build_ir(cpp, ll, defs=(), std='c++14', rtti=False, flavour='single', extra=()):
    cmd = ['clang++-14', '-std=' + std] + CLANG_FLAGS + ([] if rtti else ['-fno-rtti', '-DHFSM2_DISABLE_TYPEINDEX']) + \
          ['-I' + include_dir(flavour), '-I' + os.path.join(VERIF, 'harness')] + ['-D' + d for d in defs] + list(extra) + \
          ['-S', '-emit-llvm', cpp, '-o', ll]
    rc, out, dt = sh(cmd, timeout=300)
    if rc != 0:
        errs = [l for l in out.splitlines() if re.search(r': (fatal )?error: ', l)]
        e = Broken('clang failed on %s:\nfirst error: %s\n%s' % (cpp, errs[0][:600] if errs else '?', out[-2000:]))
        e.first_error = errs[0] if errs else ''; e.cmd = cmd; e.cpp = cpp
        e.kw = dict(defs=list(defs), std=std, rtti=rtti, flavour=flavour, extra=list(extra))
        raise e
    return dt

def to_c(ll, c, prefix='', header=None):
    try:
        txt, info = ll2c.translate(ll, prefix)
    except Exception as e:
        raise Broken('ll2c failed on %s: %r' % (ll, e))
    open(c, 'w').write(txt + '\n')
    if header:
        open(header, 'w').write(types_only(txt) + '\n')
    return info

def types_only(txt):
    """struct definitions + prototypes of the translated unit, no bodies / initialisers:
    used by the native replay build, which links the REAL object code instead."""
    out = []; depth = 0; skipping = False
    lines = txt.split('\n'); i = 0
    while i < len(lines):
        ln = lines[i]
        if (ln.startswith('struct ') and (ln.rstrip().endswith('{') or re.match(r'^struct [A-Za-z_0-9]+;\s*$', ln))) or ln.startswith('#include') or ln.startswith('_Static_assert'):
            # struct def (multi-line) or fwd decl
            out.append(ln)
            if ln.rstrip().endswith('{'):
                i += 1
                while not lines[i].startswith('};'): out.append(lines[i]); i += 1
                out.append(lines[i])
        elif re.match(r'^[A-Za-z_].*\)\s*;\s*$', ln) and '=' not in ln:   # prototype
            out.append(ln)
        elif ln.startswith('extern '):
            out.append(ln)
        i += 1
    return '\n'.join(out)

def build_fixture(workdir, name, cpp_text, defs=(), std='c++14', rtti=False, flavour='single', prefix=''):
    """writes <name>.cpp, produces <name>.ll, <name>.c, <name>_types.h; returns info dict"""
    os.makedirs(workdir, exist_ok=True)
    cpp = os.path.join(workdir, name + '.cpp'); ll = os.path.join(workdir, name + '.ll')
    c = os.path.join(workdir, name + '.c'); h = os.path.join(workdir, name + '_types.h')
    open(cpp, 'w').write(cpp_text)
    t0 = time.time(); build_ir(cpp, ll, defs, std, rtti, flavour); t1 = time.time()
    info = to_c(ll, c, prefix, h); t2 = time.time()
    info.update(cpp=cpp, ll=ll, c=c, types=h, clang_s=round(t1 - t0, 2), ll2c_s=round(t2 - t1, 2), defs=list(defs),
                std=std, rtti=rtti, flavour=flavour, name=name, workdir=workdir)
    return info

_obj_lock = threading.Lock(); _obj_done = {}
def real_object(info, compiler='g++', san=False, opt='-O1'):
    """compile the same fixture TU from the real header with an ordinary compiler (replay / validation)"""
    o = os.path.join(info['workdir'], '%s_real_%s%s.o' % (info['name'], compiler.replace('+', 'x'), '_san' if san else ''))
    with _obj_lock:
        if o in _obj_done: return _obj_done[o]
        r = _real_object(info, compiler, san, opt, o); _obj_done[o] = r
        if compiler == 'g++': pass
        return r

def _real_object(info, compiler, san, opt, o):
    cmd = [compiler, '-std=' + info['std'], opt, '-w', '-fno-exceptions', '-fno-access-control'] + \
          ([] if info['rtti'] else ['-fno-rtti', '-DHFSM2_DISABLE_TYPEINDEX']) + (['-fsanitize=address,undefined', '-fno-omit-frame-pointer', '-g'] if san else []) + \
          ['-I' + include_dir(info['flavour']), '-I' + os.path.join(VERIF, 'harness')] + ['-D' + d for d in info['defs']] + \
          ['-c', info['cpp'], '-o', o]
    rc, out, dt = sh(cmd, timeout=600)
    if rc != 0 and compiler == 'g++':
        # g++ rejects a few white-box accesses clang accepts under -fno-access-control (private bases): fall back to
        # clang++ at a different optimisation level than the -O1 pipeline the IR comes from
        return _real_object(info, 'clang++-14', san, '-O2', o)
    if rc != 0: raise Broken('%s failed on %s:\n%s' % (compiler, info['cpp'], out[-3000:]))
    return o

# ------------------------------------------------------------------------------------------------ CBMC
class Query:
    def __init__(self, name, src, defs=(), unwind=None, unwindset=(), checks='none', timeout=600, solvers=('default',),
                 expect='holds', meta=None, incs=(), extra=(), witness_of=None, mem_gb=12, object_bits=None):
        self.name = name; self.src = src; self.defs = list(defs); self.unwind = unwind; self.unwindset = list(unwindset)
        self.checks = checks; self.timeout = timeout; self.solvers = list(solvers); self.expect = expect
        self.meta = meta or {}; self.incs = list(incs); self.extra = list(extra); self.witness_of = witness_of
        self.mem_gb = mem_gb; self.object_bits = object_bits

STD_CHECKS = ['--pointer-overflow-check', '--undefined-shift-check', '--signed-overflow-check']

def loop_ids(q):
    cmd = ['cbmc', q.src, '--show-loops'] + ['-D' + d for d in q.defs] + ['-I' + i for i in q.incs]
    rc, out, dt = sh(cmd, timeout=300)
    ids = re.findall(r'^Loop ([^\s:]+):', out, re.M)
    return ids, out

def resolve_unwindset(q):
    """q.unwindset = [(regex on loop id, bound)] -> concrete 'id:bound' list (first match wins)"""
    if not q.unwindset: return []
    ids, out = loop_ids(q)
    res = []
    for lid in ids:
        for rx, b in q.unwindset:
            if re.search(rx, lid):
                res.append('%s:%d' % (lid, b)); break
    return res

def cbmc_cmd(q, solver, uws):
    cmd = ['cbmc', q.src] + ['-D' + d for d in q.defs] + ['-I' + i for i in q.incs]
    if q.checks == 'none': cmd += ['--no-standard-checks']
    elif q.checks == 'std': cmd += STD_CHECKS
    elif q.checks == 'basic': pass            # CBMC 6 defaults (bounds, pointer, div-by-zero ...)
    if q.unwind is not None: cmd += ['--unwind', str(q.unwind)]
    if uws: cmd += ['--unwindset', ','.join(uws)]
    if getattr(q, 'cover', False):
        # reachability of the harness's COVER() goals: loops are cut at the same bounds (paths beyond them are not
        # counted as reaching anything), assertions play no role
        cmd += ['--cover', 'cover', '--drop-unused-functions', '--verbosity', '8']
    else:
        cmd += ['--unwinding-assertions', '--drop-unused-functions', '--trace', '--verbosity', '8']
        if not getattr(q, 'noslice', False): cmd += ['--slice-formula']
    if q.object_bits: cmd += ['--object-bits', str(q.object_bits)]
    if solver == 'kissat': cmd += ['--external-sat-solver', 'kissat']
    elif solver == 'cadical': cmd += ['--sat-solver', 'cadical']
    elif solver in ('cvc5', 'cvc5int'): cmd += ['--cvc5']
    if q.expect == 'fails-witness': cmd += ['--stop-on-fail']
    cmd += q.extra
    return cmd

def _limits(mem_gb):
    def f():
        try: resource.setrlimit(resource.RLIMIT_AS, (int(mem_gb * (1 << 30)), int(mem_gb * (1 << 30))))
        except Exception: pass
        os.setsid()
        try:
            import ctypes; ctypes.CDLL('libc.so.6').prctl(1, 9)   # PR_SET_PDEATHSIG: never outlive the check
        except Exception: pass
    return f

def parse_cbmc(out):
    r = {}
    m = re.search(r'size of program expression: (\d+) steps', out); r['steps'] = int(m.group(1)) if m else None
    m = re.search(r'Generated (\d+) VCC\(s\), (\d+) remaining', out)
    if m: r['vccs'] = int(m.group(1)); r['vccs_remaining'] = int(m.group(2))
    m = re.search(r'(\d+) variables, (\d+) clauses', out)
    if m: r['variables'] = int(m.group(1)); r['clauses'] = int(m.group(2))
    for k, rx in (('symex_s', r'Runtime Symex: ([\d.e+-]+)s'), ('solver_s', r'Runtime Solver: ([\d.e+-]+)s'), ('decision_s', r'Runtime decision procedure: ([\d.e+-]+)s')):
        ms = re.findall(rx, out)
        if ms: r[k] = round(sum(float(x) for x in ms), 3)
    props = re.findall(r'^\[([^\]]+)\] (.*): (SUCCESS|FAILURE|UNKNOWN)\s*$', out, re.M)
    r['n_props'] = len(props)
    r['failed'] = [(pid, desc.strip()) for pid, desc, st in props if st == 'FAILURE']
    if not props:
        # --stop-on-fail prints the first violated property instead of the result table
        for m in re.finditer(r'^Violated property:\n\s*file \S+ function (\S+) line (\d+)[^\n]*\n\s*(.*)$', out, re.M):
            fn, line, desc = m.group(1), m.group(2), m.group(3).strip()
            mu = re.match(r'unwinding assertion loop (\d+)', desc)
            r['failed'].append(('%s.unwind.%s' % (fn, mu.group(1)) if mu else '%s.assertion' % fn, 'line %s %s' % (line, desc)))
    goals = re.findall(r'^\[([^\]]+)\] file \S+ line (\d+) function \S+ (.*): (SATISFIED|FAILED)\s*$', out, re.M)
    if goals:
        r['cover'] = [(int(line), desc.strip(), st) for _, line, desc, st in goals]
        r['status'] = 'covered' if all(st == 'SATISFIED' for _, _, _, st in goals) else 'uncovered'
        return r
    if 'VERIFICATION SUCCESSFUL' in out: r['status'] = 'holds'
    elif 'VERIFICATION FAILED' in out: r['status'] = 'fails'
    else: r['status'] = 'noverdict'
    return r

def run_query(q, logdir):
    """bounds are derived (props/fsmlib.bounds) and CHECKED: when an unwinding assertion fails, the bound of exactly that
    loop is raised (to the default bound, then doubled) and the query is re-run, at most 6 times; the bounds finally
    used are reported in the evidence.  A loop that still fails is a machinery fault (BROKEN), never a verdict."""
    os.makedirs(logdir, exist_ok=True)
    t0 = time.time()
    cap = os.environ.get('VERIF_TIMEOUT_CAP_S')          # optional cap of the per-query time-outs (trial runs)
    if cap: q.timeout = min(q.timeout, int(cap))
    try:
        uws = getattr(q, 'uws_override', None) or resolve_unwindset(q)
    except Exception as e:
        return dict(name=q.name, status='error', error=repr(e), wall_s=0)
    raised = []
    for attempt in range(7):
        r = _run_query_once(q, logdir, uws, t0)
        uf = [pid for pid, d in r.get('failed', []) if 'unwinding assertion' in d] if r.get('status') == 'fails' else []
        if not uf or attempt == 6: break
        cur = {u.rsplit(':', 1)[0]: int(u.rsplit(':', 1)[1]) for u in uws}
        for pid in uf:
            m = re.match(r'(.*)\.unwind\.(\d+)$', pid)
            if not m: continue
            lid = '%s.%s' % (m.group(1), m.group(2))
            old = cur.get(lid, q.unwind or 8)
            new = (q.unwind or 8) if old < (q.unwind or 8) else old * 2
            cur[lid] = new; raised.append('%s:%d->%d' % (lid, old, new))
        uws = ['%s:%d' % kv for kv in cur.items()]
    if raised: r['bounds_raised'] = raised
    return r

def _run_query_once(q, logdir, uws, t0):
    best = None
    procs = []
    lock = threading.Lock()
    results = {}
    def one(solver):
        cmd = cbmc_cmd(q, solver, uws)
        env = dict(os.environ)
        if solver == 'cvc5int': env['PATH'] = os.path.join(VERIF, 'vlib', 'shim') + ':' + env['PATH']
        tmpd = os.path.join(logdir, 'tmp'); os.makedirs(tmpd, exist_ok=True); env['TMPDIR'] = tmpd     # scratch of the solvers lives (and dies) with the build directory
        lf = os.path.join(logdir, '%s.%s.log' % (re.sub(r'[^A-Za-z0-9_.-]', '_', q.name), solver))
        tstart = time.time()
        with open(lf, 'w') as f:
            f.write('# ' + ' '.join(cmd) + '\n'); f.flush()
            with lock:
                if results.get('_done'): return
            p = subprocess.Popen(cmd, stdout=f, stderr=subprocess.STDOUT, env=env, preexec_fn=_limits(q.mem_gb))
            with lock:
                procs.append(p)
                if results.get('_done'):
                    try: os.killpg(p.pid, 9)
                    except Exception: p.kill()
            rss = 0; rc = None
            while rc is None:
                try: rc = p.wait(timeout=0.5)
                except subprocess.TimeoutExpired:
                    try:
                        for l in open('/proc/%d/status' % p.pid):
                            if l.startswith('VmHWM:'): rss = max(rss, int(l.split()[1]))
                    except Exception: pass
                    if time.time() - tstart > q.timeout:
                        try: os.killpg(p.pid, 9)
                        except Exception: p.kill()
                        p.wait(); rc = -9
        # cbmc writes the formula for an external SAT solver to $TMPDIR/external-sat<pid>.*.cnf (gigabytes for the large
        # queries) and does not remove it when it is killed at the time-out: remove it here
        try:
            import glob
            for fcnf in glob.glob(os.path.join(env.get('TMPDIR', '/tmp'), 'external-sat%d.*' % p.pid)): os.remove(fcnf)
        except Exception: pass
        out = open(lf, errors='replace').read()
        r = parse_cbmc(out); r['rc'] = rc; r['solver'] = solver; r['log'] = lf; r['wall_s'] = round(time.time() - tstart, 2)
        r['rss_mb'] = rss // 1024 if rss else None
        if rc == -9 and r['status'] == 'noverdict': r['status'] = 'timeout'
        elif r['status'] == 'noverdict' and rc not in (0, 10): r['status'] = 'error'; r['error'] = out[-1500:]
        with lock:
            results[solver] = r
            if r['status'] in ('holds', 'fails', 'covered', 'uncovered'):
                results['_done'] = True
                for pp in procs:
                    if pp is not p and pp.poll() is None:
                        try: os.killpg(pp.pid, 9)
                        except Exception: pp.kill()
    if len(q.solvers) == 1: one(q.solvers[0])
    else:
        ths = [threading.Thread(target=one, args=(s,)) for s in q.solvers]
        for t in ths: t.start()
        for t in ths: t.join()
    for s in q.solvers:
        r = results.get(s)
        if r and r['status'] in ('holds', 'fails', 'covered', 'uncovered'): best = r; break
    if best is None:
        best = results.get(q.solvers[0]) or dict(status='error')
    best = dict(best); best['name'] = q.name; best['unwindset'] = uws; best['cmd'] = ' '.join(cbmc_cmd(q, best.get('solver', q.solvers[0]), uws))
    best['total_wall_s'] = round(time.time() - t0, 2); best['meta'] = q.meta; best['expect'] = q.expect
    best['witness_of'] = q.witness_of
    return best

def run_queries(queries, logdir, jobs=None, budget_s=None):
    """runs all queries on a pool; returns list of results in input order"""
    jobs = jobs or NCPU
    res = [None] * len(queries); t0 = time.time()
    # memory-aware admission: a query declares its expected peak (mem_est, GB; default 2); the sum of the running ones
    # stays below MEM_BUDGET_GB, so that a handful of 10 GB formulas do not get each other killed
    cond = threading.Condition(); used = [0.0]
    def task(i):
        if budget_s and time.time() - t0 > budget_s:
            return i, dict(name=queries[i].name, status='skipped', meta=queries[i].meta, expect=queries[i].expect, witness_of=queries[i].witness_of, wall_s=0)
        need = min(float(getattr(queries[i], 'mem_est', 2) or 2), MEM_BUDGET_GB)
        with cond:
            while used[0] + need > MEM_BUDGET_GB and used[0] > 0: cond.wait(timeout=5)
            used[0] += need
        try:
            return i, run_query(queries[i], logdir)
        finally:
            with cond: used[0] -= need; cond.notify_all()
    with ThreadPoolExecutor(max_workers=jobs) as ex:
        futs = [ex.submit(task, i) for i in range(len(queries))]
        for f in as_completed(futs):
            i, r = f.result(); res[i] = r
            log('  [%s] %-60s %-9s %6.1fs %s' % (time.strftime('%H:%M:%S'), r['name'][:60], r['status'], r.get('total_wall_s', 0) or 0,
                                              ('steps=%s rss=%sMB %s' % (r.get('steps'), r.get('rss_mb'), r.get('solver', '')))))
    return res

# ------------------------------------------------------------------------------------------------ trace -> replay inputs
def nondet_lines(src_path):
    """(basename, line) -> True for harness source lines that call nondet_*()"""
    res = set()
    seen = set()
    def scan(path):
        if path in seen or not os.path.exists(path): return
        seen.add(path)
        base = os.path.basename(path)
        for i, ln in enumerate(open(path, errors='replace'), 1):
            if re.search(r'\bnondet_[a-z0-9_]+\s*\(', ln) and not re.match(r'^\s*(extern\s+)?[A-Za-z_][A-Za-z0-9_ \*]*\bnondet_[a-z0-9_]+\s*\(\s*void\s*\)\s*;', ln):
                res.add((base, i))
            m = re.match(r'\s*#\s*include\s+"([^"]+)"', ln)
            if m:
                for d in (os.path.dirname(path), os.path.join(VERIF, 'harness')):
                    scan(os.path.join(d, m.group(1)))
    scan(src_path)
    return res

def trace_inputs(log_path, src_path, which=0):
    """ordered list of the values produced at nondet_*() call sites in ONE counterexample trace (bit patterns).
    Harness style rule: one nondet call per source line, and that line holds nothing else that is assigned."""
    nl = nondet_lines(src_path)
    out = open(log_path, errors='replace').read()
    starts = [m.start() for m in re.finditer(r'^Trace for .*:$', out, re.M)]
    if not starts:
        i = out.find('Counterexample:')
        if i < 0: return None
        starts = [i]
    which = min(which, len(starts) - 1)
    seg = out[starts[which]:(starts[which + 1] if which + 1 < len(starts) else len(out))]
    vals = []; cur = None; prev_site = None; site_open = False
    for ln in seg.split('\n'):
        if ln.startswith('** ') or ln.startswith('Violated property'): break
        m = re.match(r'^State \d+ file (\S+) function (\S+) line (\d+)', ln)
        if m:
            cur = (os.path.basename(m.group(1)), int(m.group(3)))
            if cur != prev_site: site_open = False
            prev_site = cur
            continue
        if ln.startswith('Assumption:'):
            prev_site = None; site_open = False; continue
        m = re.match(r'^\s+([^=\s]+)=(.*?)(?: \(([01 ]+)\))?\s*$', ln)
        if not m or cur not in nl: continue
        if m.group(1).startswith('return_value_') and not m.group(1).startswith('return_value_nondet_'): continue
        is_rv = m.group(1).startswith('return_value_nondet_')
        if site_open and not is_rv: continue            # the copy of the return value into the variable
        if m.group(3): v = int(m.group(3).replace(' ', ''), 2)
        else:
            try: v = int(m.group(2).rstrip('ulUL'), 0)
            except Exception: continue
        vals.append(v); site_open = True
    return vals

NATIVE_CFLAGS = ['-O1', '-w', '-DVF_NATIVE', '-I' + os.path.join(VERIF, 'harness')]

def build_native(harness_src, defs, obj_real, out_exe, incs=(), san=False, translated=False, cxx_link=True):
    """harness compiled natively; linked either against the REAL object (replay) or including the translated C"""
    cmd = ['gcc'] + NATIVE_CFLAGS + ['-D' + d for d in defs] + ['-I' + i for i in incs] + \
          (['-fsanitize=address,undefined', '-g'] if san else []) + (['-DVF_TRANSLATED'] if translated else []) + \
          ['-c', harness_src, '-o', out_exe + '.o']
    rc, out, dt = sh(cmd, timeout=600)
    if rc != 0: raise Broken('native harness compile failed: %s\n%s' % (' '.join(cmd), out[-3000:]))
    rt = os.path.join(os.path.dirname(out_exe), 'vf_native.o')
    with _obj_lock:
        if not os.path.exists(rt):
            rc, out, dt = sh(['gcc', '-O1', '-w', '-c', os.path.join(VERIF, 'harness', 'vf_native.c'), '-o', rt + '.tmp'], timeout=120)
            if rc != 0: raise Broken('vf_native.c compile failed: ' + out[-1000:])
            os.rename(rt + '.tmp', rt)
    link = (['g++'] if cxx_link else ['gcc']) + (['-fsanitize=address,undefined'] if san else []) + [out_exe + '.o', rt] + \
           (list(obj_real) if isinstance(obj_real, (list, tuple)) else [obj_real] if obj_real else []) + ['-o', out_exe, '-lm']
    rc, out, dt = sh(link, timeout=600)
    if rc != 0: raise Broken('native link failed: %s\n%s' % (' '.join(link), out[-3000:]))
    return out_exe

def run_native(exe, inputs=None, seed=None, timeout=60):
    env = dict(os.environ)
    if inputs is not None: env['VF_INPUTS'] = ','.join(str(v) for v in inputs)
    if seed is not None: env['VF_SEED'] = str(seed)
    env['ASAN_OPTIONS'] = 'detect_leaks=0:abort_on_error=0'; env['UBSAN_OPTIONS'] = 'print_stacktrace=0:halt_on_error=0'
    rc, out, dt = sh([exe], timeout=timeout, env=env)
    fails = re.findall(r'^ASSERT-FAIL: (.*)$', out, re.M)
    return dict(rc=rc, out=out, fails=fails, infeasible=(rc == 3), exhausted=(rc == 4),
                san=bool(re.search(r'runtime error:|AddressSanitizer', out)))

# ------------------------------------------------------------------------------------------------ known findings / evidence
def load_known():
    p = os.path.join(VERIF, 'known_findings.json')
    if not os.path.exists(p): return {'findings': [], 'fixed': []}
    return json.load(open(p))

def write_evidence(pid, tier, seed, results, wall_s, violations, assumptions, extra=None, level='model_checking'):
    os.makedirs(os.path.join(VERIF, 'evidence'), exist_ok=True)
    cover = [r for r in results if r.get('expect') == 'covered']
    main = [r for r in results if r.get('expect') not in ('fails-witness', 'covered')]
    wit = [r for r in results if r.get('expect') == 'fails-witness']
    decided = [r for r in results if r.get('status') in ('holds', 'fails')]
    wit_ok = {r.get('witness_of') for r in wit if r.get('status') == 'fails'}
    def wgroup(r):
        m = r.get('meta') or {}
        ent = [d for d in (m.get('defs') or []) if d.startswith('ENTRY=') or d.startswith('H_')]
        return (m.get('fixture'), tuple(ent))
    wit_groups = {wgroup(r) for r in wit if r.get('status') == 'fails'}
    nontrivial = len({r['name'] for r in main if r.get('status') in ('holds', 'fails') and (r['name'] in wit_ok or wgroup(r) in wit_groups)})
    samples = []
    for r in results[:400]:
        s = {k: r.get(k) for k in ('name', 'status', 'solver', 'steps', 'vccs', 'vccs_remaining', 'variables', 'clauses', 'symex_s', 'solver_s', 'decision_s', 'wall_s', 'rss_mb', 'unwindset', 'expect') if r.get(k) is not None}
        s.update(r.get('meta') or {})
        if r.get('failed'): s['failed'] = [d for _, d in r['failed']][:6]
        if r.get('cover'): s['cover_goals'] = ['%s: %s' % (g, d[:160]) for _, d, g in r['cover']][:12]
        if r.get('bounds_raised'): s['bounds_raised'] = r['bounds_raised'][:8]
        samples.append(s)
    decided_main = [r for r in main if r.get('status') in ('holds', 'fails')]
    tv = (extra or {}).get('translation_validation', {})
    cov = dict(evaluations=len(results), distinct_nontrivial=nontrivial,
               rule='one evaluation = one CBMC query (fixture x entry x case split) or its -DWITNESS twin; a query counts as non-trivial only if it was decided (UNSAT/SAT) and a witness twin of the same harness entry on the same fixture (same harness, final assert(0)) came back FAILED, i.e. the assumptions are satisfiable and the end of the harness is reachable. states = SSA steps of the unrolled real code encoded in the decided queries (CBMC "size of program expression"), transitions = verification conditions generated for them, traces_validated_against_impl = paired native executions of the same harness against the g++ build of the real header and against the gcc build of the translated C (translation validation) plus counterexample replays',
               states=max(1, sum(r.get('steps') or 0 for r in decided_main)), transitions=max(1, sum(r.get('vccs') or 0 for r in decided_main)),
               traces_validated_against_impl=int(tv.get('paired_runs', 0)) + len([r for r in results if r.get('replay')]),
               obligations=len(main), discharged=len([r for r in main if r.get('status') in ('holds', 'fails')]),
               witnesses=len(wit), witnesses_reached=len([r for r in wit if r.get('status') == 'fails']),
               coverage_goal_queries=len(cover), coverage_goals=sum(len(r.get('cover') or []) for r in cover), coverage_goals_reached=sum(len([1 for _, _, g in (r.get('cover') or []) if g == 'SATISFIED']) for r in cover),
               solver_s=round(sum((r.get('solver_s') or 0) + (r.get('decision_s') or 0) for r in results), 2),
               symex_s=round(sum(r.get('symex_s') or 0 for r in results), 2),
               samples=samples, exhaustive=False,
               trusted_base=['clang++-14 front end and -O1 pipeline', 'vlib/ll2c.py (IR->C), validated per run by differential execution against the g++ build of the real header',
                             'cbmc 6.11.0 C semantics + SAT/SMT back end', 'gcc/g++ for replay builds'])
    if extra: cov.update(extra)
    ev = dict(property_id=pid, tier=tier, seed=seed, level=level, coverage=cov, assumptions=assumptions, wall_s=round(wall_s, 1), violations=violations)
    suffix = os.environ.get('VERIF_EVIDENCE_SUFFIX', '') or ('.partial' if os.environ.get('VERIF_ONLY') else '')
    json.dump(ev, open(os.path.join(VERIF, 'evidence', pid + suffix + '.json'), 'w'), indent=1)
    return ev
