#!/usr/bin/env python3
"""Regenerates MANIFEST.json from the table below (kept in one place so it is always valid)."""
import json, os
HERE = os.path.dirname(os.path.abspath(__file__))
TECH = 'bounded symbolic execution of the real header code (clang-14 IR -> C via vlib/ll2c.py) with CBMC 6.11 + SAT/SMT back ends; counterexamples replayed natively against the g++ build'
NOTE = ('Trusted: clang-14 front end/-O1, vlib/ll2c.py (differentially validated on every run against the g++ build of the real header), '
        'CBMC C semantics and solvers. Bounds (loop unwindings with --unwinding-assertions, fixture family, request budgets) are listed in the evidence file; '
        'everything outside them is outside the claim.')
CHECKS = {
 'C07': ('Bounded sequences of symbolic plan edits (append / remove-while-iterating / clear, with a no-op choice so shorter sequences are covered) through the real Instance::plan(region) against a ghost model of per-region sequences, CBMC bounds/pointer checks on, plan walks bounded with unwinding assertions (acyclicity).', '4 C07'),
 'C10': ('Self-composition: two storage objects with fully symbolic prior contents, the real constructor on both (built-in and stub generators, Automatic activation), identical callback answers => identical callback sequences and configurations; a copy-constructed instance with plans in flight continues exactly like the original.', '4 C10'),
 'C14': ('Symbolic independent payload values on one or two queued requests (each with or without payload); guards, enter() callbacks, previousTransitions() and lastTransitionTo() must expose exactly each request\'s own payload.', '4 C14'),
 'C15': ('Product program: the same machine compiled under two configurations (base vs base + one feature / all-on / development headers), symbol-prefixed and linked into one harness; one symbolic Inv pre-state and one API entry with shared per-callback decisions must give identical callback sequences and configurations.', '4 C15'),
 'C17': ('Per structure of an enumerated family: constexpr numbering/counts of the real templates and the run-time tables built by deepRegister() against an independent computation from the structure term, for a symbolic state/region/fork index.', '4 C17'),
 'C06': ('A symbolic plan (0..2 tasks, symbolic origin/destination/kind, built through the real Plan calls) on the root region, one update() in which the head and the active sub-state symbolically succeed/fail: which tasks fire, what is removed, the order and origin of the recorded transitions and planSucceeded/planFailed delivery are compared with an oracle written from the statement.', '4 C06'),
 'C09': ('One symbolic request with approving/vetoing/substituting guards: previousTransitions() equals the concatenation of the approved rounds, lastTransitionTo() points into it, and a struct-copied replica fed the list through the real replayTransitions() reaches the same forks without consulting a guard (replayEnter in the thorough tier).', '4 C09'),
 'C11': ('CBMC standard checks (bounds, pointers, pointer arithmetic, shifts, signed overflow, division) ON over one symbolic step of every API entry from every Inv state with request budgets beyond every capacity, guard bands around the instance, the library assertions compiled in via the HFSM2_VERIF hook; the translated unit references no allocator.', '4 C11'),
 'C12': ('Full-range symbolic IEEE-754 utilities, ranks and generator output: utilize() picks the leftmost argmax of the recursive utility; randomize() always picks a top-rank positive-utility sub-state whose cumulative interval contains r*sum (stated float slack), one random number per region.', '4 C12'),
 'C13': ('For every Inv state the activity/resumable/scheduled queries agree with the fork arrays and each other; for one symbolic request of each kind the isPendingEnter/Exit/Change answers read in every guard are compared with the enter/exit callbacks the approved round performs; outside processing all are false.', '4 C13'),
 'C16': ('The real LoggerInterfaceT subclass reached through its translated vtable: every callback is preceded by its recordMethod, every request/cancellation/select produces exactly one matching record, a detached logger receives nothing; the structure report matches isActive() and the saturating activity counters after a symbolic step.', '4 C16'),
 'C01': ('One-step inductive check on the real templates instantiated for a fixture family: from EVERY configuration satisfying the representation invariant Inv (symbolic fork arrays), one public API entry (update, immediate* of every kind to every state, reset, queued requests + update, constructor path) with nondeterministic guard/update callbacks (approve/cancel/substitute/request any kind to any state) preserves Inv, keeps the forks well-formed inside every callback, and the API-level statement (isActive/activeSubState) holds for every Inv state.', '4 C01'),
 'C02': ('Full equality of the (active, resumable) vectors produced by the real processTransitions with a reference model written from the statement (sequential application of the batch on the pending configuration, kind-driven recursive resolution, schedule, later-overrides-earlier), for every Inv pre-state, every request kind, every destination (case split) and batches of 2 (3 in thorough); reset() and no-request processing included.', '4 C02'),
 'C03': ('Lifecycle monitor automaton in the callback stub (enter/exit alternate, parent-before-child nesting, callbacks only on entered states, this == access<State>()) over one symbolic step from every Inv state, plus whole-life runs construct -> step -> destroy / enter() -> step -> exit() (Manual).', '4 C03'),
 'C04': ('Every guard invocation symbolically approves, cancels or substitutes; monitor proves guards precede lifecycle callbacks, a step in which no round was approved changes nothing but scheduled resumables and leaves nothing pending, and the number of rounds is bounded by SUBSTITUTION_LIMIT (also via the unwinding assertion of the round loop with the library default 4).', '4 C04'),
 'C05': ('Exact comparison of the callback trace of update()/react()/query() with a reference trace generated from the statement, for every Inv configuration, both reaction orders, every consuming state and phase (solver variables) and injected handlers.', '4 C05'),
 'C08': ('Two symbolic configurations (incl. not-activated for Manual), real save -> load -> save with CBMC bounds/pointer checks on: instance untouched by save, active and resumable forks reproduced, enter/exit deltas, bit-identical re-save.', '4 C08'),
 'C18': ('BitArrayT<N> (all members, dynamic and static views) against set semantics on a ghost mask with symbolic contents, indices and view geometry; bit streams write<W>/read<W> round trip with symbolic values and prior buffer content for case-split alignments and width sequences (all W in 1..32 in pairs in the thorough tier).', '4 C18'),
 'C19': ('TaskListT<void|payload,C> for C in {1,2,3,5}: every bounded sequence of symbolic insert/remove/clear from the empty pool AND a one-step inductive query from every pool state satisfying the representation invariant (covers histories of any length per capacity); DynamicArrayT/StaticArrayT against ghost sequences.', '4 C19'),
 'C20': ('Every bundled generator kernel is symbolically executed from the IR of the real header and compared, for ALL 32/64-bit seeds and ALL 128/256-bit states, with reference implementations written from the published splitmix/xoshiro algorithms (step, jump, seeding never all-zero, [0,1) range, storage-independent construction). Bounded only by the jump()/retry loop unwindings, which are checked by unwinding assertions.', '4 C20'),
}
READY = set(CHECKS)
PENDING = {}
def main():
    props = [json.loads(l) for l in open(os.path.join(HERE, 'properties.jsonl'))]
    checks = []; na = []
    for p in props:
        pid = p['id']
        if pid in CHECKS and pid in READY:
            text, ref = CHECKS[pid]
            checks.append(dict(property_id=pid, quick_cmd='python3 check.py %s --tier quick' % pid, thorough_cmd='python3 check.py %s --tier thorough' % pid,
                               evidence_file='evidence/%s.json' % pid, replay_cmd_template='python3 check.py %s --replay {path}' % pid,
                               engine='cbmc-on-ir', level_claimed=dict(category='model_checking', text=text, design_ref='DESIGN.md section ' + ref),
                               level_note=NOTE, technique=TECH))
        else:
            na.append(dict(property_id=pid, reason=PENDING.get(pid, 'check not yet built in this revision of /verif (work in progress, see DESIGN.md section 4); no claim is made')))
    m = dict(version=1, setup_cmd='python3 setup_check.py',
             hooks=dict(guard='HFSM2_VERIF', enable='-DHFSM2_VERIF -DHFSM2_ENABLE_ASSERT on the fixture translation units (C11)', baseline_off_cmd='bash run_baseline.sh',
                        source_commits=['7803fb392f3b07a95b32bb1b82c4a23b77b98cd2'], add_only=True),
             engines=[dict(name='cbmc-on-ir', path='vlib/', serves_properties=sorted(CHECKS), kind_free_text='clang-14 LLVM IR of the real header -> C (vlib/ll2c.py) -> cbmc 6.11 (cadical/kissat/minisat/cvc5); native replay with g++')],
             checks=checks, not_applicable=na,
             notes='All checks regenerate IR, C and harness objects from /repo\'s working tree on every run. Exit 0 = held on everything explored; 1 = VIOLATION line; 2 = machinery fault (never reported as a violation).')
    json.dump(m, open(os.path.join(HERE, 'MANIFEST.json'), 'w'), indent=1)
    print('MANIFEST: %d checks, %d not_applicable' % (len(checks), len(na)))
if __name__ == '__main__': main()
