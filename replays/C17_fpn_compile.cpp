#define HFSM2_ENABLE_SERIALIZATION
#define HFSM2_ENABLE_PLANS
#include <hfsm2/machine.hpp>
#include <new>

extern "C" int      vf_cb(int state, int method, const void* self);
extern "C" unsigned vf_select(int state);
extern "C" int      vf_rank(int state);
extern "C" float    vf_utility(int state);
extern "C" float    vf_rng(void);
extern "C" unsigned vf_payload(int state, int method);
extern "C" void     vf_log(int kind, int a, int b, int c);
extern "C" void     vf_obs(int what, int a, int b, const void* p);
struct StubRNG { float next() noexcept { return vf_rng(); } };

using Config = hfsm2::Config;
using M = hfsm2::MachineT<Config>;
#define S(s) struct s
using FSM = M::Root<S(Apex), M::Composite<S(P), M::Composite<S(G), S(G1), S(G2)>>, S(A)>;
#undef S
struct Ev { int id; };
using VControl = FSM::State::Control; using VPlanControl = FSM::State::PlanControl; using VFullControl = FSM::State::FullControl;
using VGuardControl = FSM::State::GuardControl; using VEventControl = FSM::State::EventControl; using VConstControl = FSM::State::ConstControl;
enum { KINDS = 0x0 };

template <typename TC>
static inline void vf_act(TC& c, int d) {
    if (d <= 0) return;
    const hfsm2::StateID dest = (hfsm2::StateID)(d & 0xff);
    switch ((d >> 8) & 0xf) {
    default: break;
    }
    if ((d & 0xf000) == 0x1000) c.succeed(); else if ((d & 0xf000) == 0x2000) c.fail();
}
template <int ID> struct Base : FSM::State {
    void enter(VPlanControl& c) noexcept { (void)c; vf_cb(ID, 5, this); }
    void reenter(VPlanControl& c) noexcept { (void)c; vf_cb(ID, 6, this); }
    void exit(VPlanControl& c) noexcept { (void)c; vf_cb(ID, 15, this); }
};
struct Apex : Base<0> {};
struct P : Base<1> {};
struct G : Base<2> {};
struct G1 : Base<3> {};
struct G2 : Base<4> {};
struct A : Base<5> {};
using Inst = FSM::Instance;
struct VfInst { Inst v; };
static StubRNG g_rng;
extern "C" __attribute__((noinline)) unsigned vf_sizeof(void) { return sizeof(VfInst); }
extern "C" __attribute__((noinline)) void vf_construct(VfInst* m) { new (&m->v) Inst(); }
extern "C" __attribute__((noinline)) void vf_destroy(VfInst* m) { m->v.~Inst(); }
extern "C" __attribute__((noinline)) void vf_copy(VfInst* dst, const VfInst* src) { new (&dst->v) Inst(src->v); }
extern "C" __attribute__((noinline)) void vf_update(VfInst* m) { m->v.update(); }
extern "C" __attribute__((noinline)) void vf_reset(VfInst* m) { m->v.reset(); }
extern "C" __attribute__((noinline)) void vf_request(VfInst* m, unsigned kind, unsigned s) { const hfsm2::StateID d = (hfsm2::StateID)s; switch (kind) {
    case 1: m->v.changeTo(d); break;
    case 2: m->v.restart(d); break;
    case 3: m->v.resume(d); break;
    case 4: m->v.select(d); break;
    case 7: m->v.schedule(d); break;
    default: break; } }
extern "C" __attribute__((noinline)) void vf_imm1(VfInst* m, unsigned s) { m->v.immediateChangeTo((hfsm2::StateID)s); }
extern "C" __attribute__((noinline)) void vf_imm2(VfInst* m, unsigned s) { m->v.immediateRestart((hfsm2::StateID)s); }
extern "C" __attribute__((noinline)) void vf_imm3(VfInst* m, unsigned s) { m->v.immediateResume((hfsm2::StateID)s); }
extern "C" __attribute__((noinline)) void vf_imm4(VfInst* m, unsigned s) { m->v.immediateSelect((hfsm2::StateID)s); }
extern "C" __attribute__((noinline)) int vf_is_active(const VfInst* m, unsigned s) { return m->v.isActive((hfsm2::StateID)s); }
extern "C" __attribute__((noinline)) int vf_is_resumable(const VfInst* m, unsigned s) { return m->v.isResumable((hfsm2::StateID)s); }
extern "C" __attribute__((noinline)) int vf_is_scheduled(const VfInst* m, unsigned s) { return m->v.isScheduled((hfsm2::StateID)s); }
extern "C" __attribute__((noinline)) unsigned vf_active_sub(const VfInst* m, unsigned s) { return m->v.activeSubState((hfsm2::StateID)s); }
extern "C" __attribute__((noinline)) int vf_pending_change(const VfInst* m, unsigned s) { return m->v.isPendingChange((hfsm2::StateID)s); }
extern "C" __attribute__((noinline)) int vf_pending_enter(const VfInst* m, unsigned s) { return m->v.isPendingEnter((hfsm2::StateID)s); }
extern "C" __attribute__((noinline)) int vf_pending_exit(const VfInst* m, unsigned s) { return m->v.isPendingExit((hfsm2::StateID)s); }
extern "C" __attribute__((noinline)) unsigned char* vf_compo_active(VfInst* m) { return &m->v._core.registry.compoActive[0]; }
extern "C" __attribute__((noinline)) unsigned char* vf_compo_resumable(VfInst* m) { return &m->v._core.registry.compoResumable[0]; }
extern "C" __attribute__((noinline)) unsigned char* vf_compo_requested(VfInst* m) { return &m->v._core.registry.compoRequested[0]; }
extern "C" __attribute__((noinline)) unsigned char* vf_compo_remains(VfInst* m) { return &m->v._core.registry.compoRemains._storage[0]; }
extern "C" __attribute__((noinline)) unsigned vf_requests_count(VfInst* m) { return m->v._core.requests.count(); }
extern "C" __attribute__((noinline)) void vf_requests_clear(VfInst* m) { m->v._core.requests.clear(); }
extern "C" __attribute__((noinline)) unsigned vf_request_dest(VfInst* m, unsigned i) { return m->v._core.requests[i].destination; }
extern "C" __attribute__((noinline)) unsigned vf_request_type(VfInst* m, unsigned i) { return (unsigned)m->v._core.requests[i].type; }
extern "C" __attribute__((noinline)) unsigned vf_request_origin(VfInst* m, unsigned i) { return m->v._core.requests[i].origin; }
extern "C" __attribute__((noinline)) int vf_rt_state_parent_fork(VfInst* m, unsigned s) { return m->v._core.registry.stateParents[s].forkId; }
extern "C" __attribute__((noinline)) unsigned vf_rt_state_parent_prong(VfInst* m, unsigned s) { return m->v._core.registry.stateParents[s].prong; }
extern "C" __attribute__((noinline)) int vf_rt_compo_parent_fork(VfInst* m, unsigned c) { return m->v._core.registry.compoParents[c].forkId; }
extern "C" __attribute__((noinline)) unsigned vf_rt_compo_parent_prong(VfInst* m, unsigned c) { return m->v._core.registry.compoParents[c].prong; }
extern "C" __attribute__((noinline)) unsigned vf_rt_region_head(VfInst* m, unsigned r) { return m->v._core.registry.regionHeads[r]; }
extern "C" __attribute__((noinline)) unsigned vf_rt_region_size(VfInst* m, unsigned r) { return m->v._core.registry.regionSizes[r]; }
extern "C" __attribute__((noinline)) unsigned vf_ct(unsigned what) { switch (what) {
    case 0: return FSM::STATE_COUNT; case 1: return FSM::REGION_COUNT; case 2: return FSM::COMPO_COUNT; case 3: return FSM::ORTHO_COUNT; case 4: return FSM::ORTHO_UNITS;
    case 5: return FSM::SUBSTITUTION_LIMIT;
    case 6: return FSM::SERIAL_BITS; case 7: return FSM::ACTIVE_BITS; case 8: return FSM::RESUMABLE_BITS;
    case 9: return FSM::TASK_CAPACITY;
    case 10: return FSM::Apex::COMPO_PRONGS; case 11: return FSM::Apex::WIDTH;
    default: return 0xffffffffu; } }
extern "C" __attribute__((noinline)) unsigned vf_ct_state_id(unsigned s) { switch (s) {
    case 0: return FSM::stateId<Apex>();
    case 1: return FSM::stateId<P>();
    case 2: return FSM::stateId<G>();
    case 3: return FSM::stateId<G1>();
    case 4: return FSM::stateId<G2>();
    case 5: return FSM::stateId<A>();
    default: return 0xffffu; } }
extern "C" __attribute__((noinline)) unsigned vf_ct_region_id(unsigned s) { switch (s) {
    case 0: return FSM::regionId<Apex>();
    case 1: return FSM::regionId<P>();
    case 2: return FSM::regionId<G>();
    default: return 0xffu; } }
extern "C" __attribute__((noinline)) const void* vf_access(VfInst* m, unsigned s) { switch (s) {
    case 0: return &m->v.access<Apex>();
    case 1: return &m->v.access<P>();
    case 2: return &m->v.access<G>();
    case 3: return &m->v.access<G1>();
    case 4: return &m->v.access<G2>();
    case 5: return &m->v.access<A>();
    default: return nullptr; } }
struct VfBuf { Inst::SerialBuffer v; };
extern "C" __attribute__((noinline)) void vf_buf_init(VfBuf* b) { new (&b->v) Inst::SerialBuffer(); }
extern "C" __attribute__((noinline)) void vf_save(const VfInst* m, VfBuf* b) { m->v.save(b->v); }
extern "C" __attribute__((noinline)) void vf_load(VfInst* m, const VfBuf* b) { m->v.load(b->v); }
extern "C" __attribute__((noinline)) int vf_buf_eq(const VfBuf* a, const VfBuf* b) { return a->v == b->v; }
extern "C" __attribute__((noinline)) unsigned vf_buf_bytes(void) { return sizeof(VfBuf); }
extern "C" __attribute__((noinline)) unsigned char* vf_buf_data(VfBuf* b) { return &b->v.data()[0]; }
extern "C" __attribute__((noinline)) void vf_update_plans_only(VfInst* m) { typename Inst::TransitionSets empty; typename Inst::FullControl control{m->v._core, empty}; m->v._apex.deepPreUpdate(control); m->v._apex.deepUpdate(control); m->v._apex.deepPostUpdate(control); m->v._apex.deepUpdatePlans(control); m->v._core.planData.clearStatuses(); }
extern "C" __attribute__((noinline)) int vf_plan_append(VfInst* m, unsigned region, unsigned o, unsigned d, unsigned kind) { auto p = m->v.plan((hfsm2::RegionID)region); const hfsm2::StateID O = (hfsm2::StateID)o, D = (hfsm2::StateID)d; switch (kind) {
    case 1: return p.change(O, D);
    case 2: return p.restart(O, D);
    case 3: return p.resume(O, D);
    case 4: return p.select(O, D);
    case 7: return p.schedule(O, D);
    default: return 0; } }
extern "C" __attribute__((noinline)) void vf_plan_clear(VfInst* m, unsigned region) { m->v.plan((hfsm2::RegionID)region).clear(); }
extern "C" __attribute__((noinline)) unsigned vf_plan_len(VfInst* m, unsigned region) { unsigned n = 0; auto p = m->v.plan((hfsm2::RegionID)region); for (auto it = p.begin(); it; ++it) ++n; return n; }
extern "C" __attribute__((noinline)) unsigned vf_plan_item(VfInst* m, unsigned region, unsigned idx, unsigned what) { unsigned n = 0; auto p = m->v.plan((hfsm2::RegionID)region); for (auto it = p.begin(); it; ++it, ++n) if (n == idx) return what == 0 ? it->origin : what == 1 ? it->destination : (unsigned)it->type; return 0xffffffffu; }
extern "C" __attribute__((noinline)) void vf_plan_remove_nth(VfInst* m, unsigned region, unsigned idx) { unsigned n = 0; auto p = m->v.plan((hfsm2::RegionID)region); for (auto it = p.begin(); it; ++it, ++n) if (n == idx) it.remove(); }
extern "C" __attribute__((noinline)) unsigned vf_task_count(VfInst* m) { return m->v._core.planData.tasks.count(); }
extern "C" __attribute__((noinline)) int vf_plan_exists(VfInst* m, unsigned region) { return m->v._core.planData.planExists.get(region); }
extern "C" __attribute__((noinline)) void vf_plan_exists_set(VfInst* m, unsigned region, int v) { if (v) m->v._core.planData.planExists.set(region); else m->v._core.planData.planExists.clear(region); }
extern "C" __attribute__((noinline)) int vf_task_success(VfInst* m, unsigned s) { return m->v._core.planData.tasksSuccesses.get(s); }
extern "C" __attribute__((noinline)) int vf_task_failure(VfInst* m, unsigned s) { return m->v._core.planData.tasksFailures.get(s); }
extern "C" __attribute__((noinline)) void vf_succeed(VfInst* m, unsigned s) { m->v.succeed((hfsm2::StateID)s); }
extern "C" __attribute__((noinline)) void vf_fail(VfInst* m, unsigned s) { m->v.fail((hfsm2::StateID)s); }
extern "C" __attribute__((noinline)) unsigned vf_task_bounds(VfInst* m, unsigned region, unsigned w) { return w ? m->v._core.planData.taskBounds[region].last : m->v._core.planData.taskBounds[region].first; }
