#define HFSM2_ENABLE_PLANS
#include <hfsm2/machine.hpp>
extern "C" int  vf_cb(int state, int method);
using Config = hfsm2::Config::SubstitutionLimitN<2>::TaskCapacityN<3>;
using M = hfsm2::MachineT<Config>;
#define S(s) struct s
using FSM = M::Root<S(Apex), S(A), M::Resumable<S(B), S(B1), S(B2)>>;
#undef S
template <int ID> struct Base : FSM::State {
    void update(FullControl& c) { int d = vf_cb(ID, 4); if (d == 1) c.succeed(); else if (d == 2) c.fail(); else if (d >= 0x100) c.changeTo((hfsm2::StateID)(d & 0xff)); }
    void enter(PlanControl&) { vf_cb(ID, 2); }
    void exit(PlanControl&) { vf_cb(ID, 6); }
    void planSucceeded(FullControl& c) { vf_cb(ID, 16); FSM::State::planSucceeded(c); }
    void planFailed(FullControl& c) { vf_cb(ID, 17); FSM::State::planFailed(c); }
};
struct Apex : Base<0> {}; struct A : Base<1> {}; struct B : Base<2> {}; struct B1 : Base<3> {}; struct B2 : Base<4> {};
using Inst = FSM::Instance;
extern "C" {
__attribute__((noinline)) void vf_construct(Inst* m) { new (static_cast<void*>(m)) Inst(); }
__attribute__((noinline)) void vf_update(Inst* m) { m->update(); }
__attribute__((noinline)) int vf_plan_append(Inst* m, unsigned region, unsigned o, unsigned d, unsigned kind) { auto p = m->plan((hfsm2::RegionID)region); switch (kind) { case 0: return p.change((hfsm2::StateID)o, (hfsm2::StateID)d); case 1: return p.restart((hfsm2::StateID)o, (hfsm2::StateID)d); default: return p.resume((hfsm2::StateID)o, (hfsm2::StateID)d); } }
__attribute__((noinline)) unsigned vf_task_count(Inst* m) { return m->_core.planData.tasks.count(); }
__attribute__((noinline)) unsigned vf_req_count(Inst* m) { return m->_core.requests.count(); }
__attribute__((noinline)) unsigned char* vf_compo_active(Inst* m) { return &m->_core.registry.compoActive[0]; }
__attribute__((noinline)) unsigned char* vf_compo_resumable(Inst* m) { return &m->_core.registry.compoResumable[0]; }
__attribute__((noinline)) int vf_is_active(Inst* m, unsigned s) { return m->isActive((hfsm2::StateID)s); }
}
