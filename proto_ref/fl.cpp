#define HFSM2_ENABLE_LOG_INTERFACE
#include <hfsm2/machine.hpp>
extern "C" int  vf_cb(int state, int method);
extern "C" void vf_log(int kind, int a, int b, int c);
using M = hfsm2::Machine;
#define S(s) struct s
using FSM = M::Root<S(Apex), S(A), M::Composite<S(B), S(B1), S(B2)>>;
#undef S
struct Logger : M::LoggerInterface {
    void recordMethod(const Context&, const StateID origin, const Method method) override { vf_log(0, origin, (int)method, 0); }
    void recordTransition(const Context&, const StateID origin, const TransitionType t, const StateID target) override { vf_log(1, origin, (int)t, target); }
    void recordCancelledPending(const Context&, const StateID origin) override { vf_log(2, origin, 0, 0); }
};
template <int ID> struct Base : FSM::State {
    void update(FullControl& c) { int d = vf_cb(ID, 4); if (d > 0) c.changeTo((hfsm2::StateID)(d & 0xff)); }
    void enter(PlanControl&) { vf_cb(ID, 2); }
    void exit(PlanControl&) { vf_cb(ID, 6); }
};
struct Apex : Base<0> {}; struct A : Base<1> {}; struct B : Base<2> {}; struct B1 : Base<3> {}; struct B2 : Base<4> {};
using Inst = FSM::Instance;
extern "C" {
__attribute__((noinline)) void vf_logger_construct(Logger* l) { new (static_cast<void*>(l)) Logger(); }
__attribute__((noinline)) void vf_construct(Inst* m, Logger* l) { new (static_cast<void*>(m)) Inst(l); }
__attribute__((noinline)) void vf_update(Inst* m) { m->update(); }
__attribute__((noinline)) unsigned char* vf_compo_active(Inst* m) { return &m->_core.registry.compoActive[0]; }
}
