#include <stdint.h>
static int hit;
void f_thunk(void* a, uint16_t b) { hit = b; }
void g_thunk(void* a, uint16_t b) { hit = -1; }
struct lit0 { uint8_t* f0[4]; };
struct lit0 VT = {{ (uint8_t*)0, (uint8_t*)0, (uint8_t*)f_thunk, (uint8_t*)g_thunk }};
struct Obj { uint32_t (**vptr)(); };
int main(void) {
  struct Obj o; o.vptr = (uint32_t (**)())(&VT.f0[2]);
  void (***pp)(void*, uint16_t) = (void (***)(void*, uint16_t))&o;
  void (**vt)(void*, uint16_t) = *pp;
  void (*fn)(void*, uint16_t) = vt[0];
  ((void (*)(void*, uint16_t))fn)((void*)&o, 7);
  __CPROVER_assert(hit == 7, "called f");
  return 0; }
