#include "fp1.c"
int nondet_int(void); unsigned char nondet_uchar(void); unsigned nondet_uint(void);
static int phase, budget, planS, planF, nsucc;
uint32_t vf_cb(uint32_t s, uint32_t m){
  if (m == 16) { planS++; return 0; } if (m == 17) { planF++; return 0; }
  if (!phase || m != 4) return 0;
  int d = nondet_int(); if (d == 0) return 0;
  if (d == 1 || d == 2) { if (d == 1) nsucc++; return d; }
  __CPROVER_assume(d >= 0x100 && d < 0x105); __CPROVER_assume(budget > 0); budget--; return d; }
int main(void){
  static struct T_class_hfsm2__detail__InstanceT inst; vf_construct(&inst);
  uint8_t *a = vf_compo_active(&inst), *r = vf_compo_resumable(&inst);
  a[0] = nondet_uchar(); a[1] = nondet_uchar(); r[0] = nondet_uchar(); r[1] = nondet_uchar();
  __CPROVER_assume(a[0] <= 1 && (a[0]==1 ? a[1] <= 1 : a[1]==255) && (r[0]==255||r[0]<=1) && (r[1]==255||r[1]<=1));
  unsigned nt = nondet_uint(); __CPROVER_assume(nt <= 2);
  for (unsigned i = 0; i < 2; ++i) if (i < nt) {
    unsigned reg = nondet_uint(), o = nondet_uint(), d = nondet_uint(), k = nondet_uint();
    __CPROVER_assume(reg <= 1 && o >= 1 && o < 5 && d >= 1 && d < 5 && k < 3);
    vf_plan_append(&inst, reg, o, d, k);
  }
  phase = 1; budget = 1; vf_update(&inst); phase = 0;
#ifdef WITNESS
  __CPROVER_assert(!(planS > 0), "witness: planSucceeded reachable");
#endif
  __CPROVER_assert(a[0] <= 1 && (a[0]==1 ? a[1] <= 1 : a[1]==255), "Inv after plan step");
  __CPROVER_assert(vf_task_count(&inst) <= nt, "tasks only removed");
  __CPROVER_assert(!(planS && planF && 0), "dummy");
  return 0; }
