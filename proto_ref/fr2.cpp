#define HFSM2_ENABLE_STRUCTURE_REPORT
#include <hfsm2/machine.hpp>
extern "C" int  vf_cb(int state, int method);
using Config = hfsm2::Config::SubstitutionLimitN<2>;
using M = hfsm2::MachineT<Config>;
#define S(s) struct s
using FSM = M::Root<S(Apex), S(A), M::Composite<S(B), S(B1), S(B2)>>;
#undef S
template <int ID> struct Base : FSM::State { void update(FullControl& c) { int d = vf_cb(ID, 4); if (d > 0) c.changeTo((hfsm2::StateID)(d & 0xff)); } };
struct Apex : Base<0> {}; struct A : Base<1> {}; struct B : Base<2> {}; struct B1 : Base<3> {}; struct B2 : Base<4> {};
using Inst = FSM::Instance;
extern "C" {
__attribute__((noinline)) void vf_construct(Inst* m) { new (static_cast<void*>(m)) Inst(); }
__attribute__((noinline)) void vf_update(Inst* m) { m->update(); }
__attribute__((noinline)) int vf_is_active(Inst* m, unsigned s) { return m->isActive((hfsm2::StateID)s); }
__attribute__((noinline)) int vf_struct_active(Inst* m, unsigned s) { return m->structure()[s].isActive; }
__attribute__((noinline)) int vf_activity(Inst* m, unsigned s) { return m->activityHistory()[s]; }
__attribute__((noinline)) signed char* vf_activity_ptr(Inst* m) { return &m->_activityHistory[0]; }
__attribute__((noinline)) unsigned char* vf_compo_active(Inst* m) { return &m->_core.registry.compoActive[0]; }
}
