#!/bin/bash
# usage: run.sh tag src.c defs...
tag=$1; src=$2; shift 2
goto-cc $src "$@" -o $tag.gb 2>/dev/null
US=$(goto-instrument --show-loops $tag.gb 2>/dev/null | grep -oE "^Loop [^ ]*" | sed 's/Loop //; s/:$//' | awk '/requestImmediate|vf_is_active|vf_is_resumable|vf_active_sub|processTransitions/{printf "%s:5,", $0; next}' | sed 's/,$//')
timeout ${CAP:-1200} /usr/bin/time -f "wall=%es rss=%MKB" cbmc $src "$@" --no-standard-checks --unwind 12 --unwindset "$US" --unwinding-assertions --drop-unused-functions --slice-formula --verbosity 8 ${EXTRA} > $tag.log 2>&1
echo "rc=$?" >> $tag.log
