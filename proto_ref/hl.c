#include "fl.c"
int nondet_int(void); unsigned char nondet_uchar(void);
static int phase, nlog, ncb, last_log_state = -1, last_log_method = -1, mism;
uint32_t vf_cb(uint32_t s, uint32_t m){
  ncb++;
  /* C16-style oracle: every overridden method call is immediately preceded by its recordMethod */
  if (phase) { int expect = m==4 ? 8 /*Method::UPDATE*/ : m==2 ? 5 /*ENTER*/ : 15 /*EXIT*/; if (!(last_log_state == (int)s && last_log_method == expect)) mism = 1; last_log_state = -1; }
  if (!phase || m != 4) return 0;
  int d = nondet_int(); if (d <= 0) return 0; __CPROVER_assume(d < 5); { static int budget = 2; __CPROVER_assume(budget > 0); budget--; } return d; }
void vf_log(uint32_t kind, uint32_t a, uint32_t b, uint32_t c){ nlog++; if (kind == 0) { last_log_state = a; last_log_method = b; } }
int main(void){
  static struct T_class_hfsm2__detail__InstanceT inst; static struct T_struct_Logger lg;
  vf_logger_construct(&lg); vf_construct(&inst, &lg);
  uint8_t *a = vf_compo_active(&inst); a[0] = nondet_uchar(); a[1] = nondet_uchar();
  __CPROVER_assume(a[0] <= 1 && (a[0]==1 ? a[1] <= 1 : a[1]==255));
  phase = 1; nlog = 0; vf_update(&inst);
#ifdef WITNESS
  __CPROVER_assert(nlog < 3, "witness: logger reached through vtable");
#endif
  __CPROVER_assert(!mism, "C16: each overridden callback preceded by its recordMethod");
  return 0; }
