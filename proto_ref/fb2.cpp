#define HFSM2_ENABLE_SERIALIZATION
#include <hfsm2/machine.hpp>
using namespace hfsm2; using namespace hfsm2::detail;
using Buf = StreamBufferT<64>; using W = BitWriteStreamT<64>; using R = BitReadStreamT<64>;
extern "C" {
__attribute__((noinline)) void vf_buf_init(Buf* b) { new (static_cast<void*>(b)) Buf(); }
__attribute__((noinline)) void vf_w_init(W* w, Buf* b) { new (static_cast<void*>(w)) W(*b); }
__attribute__((noinline)) void vf_r_init(R* r, const Buf* b) { new (static_cast<void*>(r)) R(*b); }
#define WR(N) __attribute__((noinline)) void vf_w##N(W* w, uint32_t v) { w->write<N>((UBitWidth<N>)v); } \
              __attribute__((noinline)) uint32_t vf_r##N(R* r) { return r->read<N>(); }
WR(1) WR(3) WR(8) WR(13) WR(32)
__attribute__((noinline)) unsigned vf_w_cursor(const W* w) { return w->cursor(); }
__attribute__((noinline)) unsigned vf_r_cursor(const R* r) { return r->cursor(); }
}
