#include "fr.c"
uint64_t nondet_u64(void); uint32_t nondet_u32(void);
static uint64_t rotl64(uint64_t x, int k){ return (x<<k)|(x>>(64-k)); }
static uint64_t ref_xp(uint64_t s[4]){ uint64_t result = s[0]+s[3]; uint64_t t = s[1]<<17; s[2]^=s[0]; s[3]^=s[1]; s[1]^=s[2]; s[0]^=s[3]; s[2]^=t; s[3]=rotl64(s[3],45); return result; }
static uint64_t ref_xss(uint64_t s[4]){ uint64_t result = rotl64(s[1]*5,7)*9; uint64_t t = s[1]<<17; s[2]^=s[0]; s[3]^=s[1]; s[1]^=s[2]; s[0]^=s[3]; s[2]^=t; s[3]=rotl64(s[3],45); return result; }
static uint64_t ref_sm(uint64_t* x){ uint64_t z = (*x += 0x9e3779b97f4a7c15ULL); z = (z ^ (z >> 30)) * 0xbf58476d1ce4e5b9ULL; z = (z ^ (z >> 27)) * 0x94d049bb133111ebULL; return z ^ (z >> 31); }
int main(void){
  uint64_t a[4], b[4]; for (int i=0;i<4;i++) a[i]=b[i]=nondet_u64();
#if K==1
  uint64_t x = vf_xp64(a), y = ref_xp(b); __CPROVER_assert(x==y && a[0]==b[0]&&a[1]==b[1]&&a[2]==b[2]&&a[3]==b[3], "xoshiro256+ step");
#elif K==2
  uint64_t x = vf_xss64(a), y = ref_xss(b); __CPROVER_assert(x==y && a[0]==b[0]&&a[1]==b[1]&&a[2]==b[2]&&a[3]==b[3], "xoshiro256** step");
#elif K==3
  uint64_t s1=a[0], s2=a[0]; uint64_t x = vf_sm64_raw(&s1), y = ref_sm(&s2); __CPROVER_assert(x==y && s1==s2, "splitmix64 step");
#elif K==4
  float f = vf_uniform32(nondet_u32()); __CPROVER_assert(f >= 0.0f && f < 1.0f, "uniform32 in [0,1)");
  double d = vf_uniform64(nondet_u64()); __CPROVER_assert(d >= 0.0 && d < 1.0, "uniform64 in [0,1)");
#elif K==5
  uint64_t s1=a[0]; uint64_t x = vf_sm64_nz(&s1); __CPROVER_assert(x != 0, "seeding never zero");
#endif
  return 0; }
