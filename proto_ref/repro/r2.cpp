#include <hfsm2/machine.hpp>
#include <cstdio>
using M = hfsm2::Machine;
#define S(s) struct s
using FSM = M::Root<S(Apex), S(A), S(B)>;
#undef S
struct Apex : FSM::State {}; struct A : FSM::State {}; struct B : FSM::State {};
int main() { FSM::Instance m; m.schedule<Apex>(); m.update(); printf("done active(A)=%d\n", m.isActive<A>()); return 0; }
