#include <hfsm2/machine.hpp>
#include <cstdio>
#include <cstring>
using M = hfsm2::Machine;
#define S(s) struct s
using FSM = M::Root<S(Apex), S(A), S(B)>;
#undef S
struct Apex : FSM::State {}; struct A : FSM::State {}; struct B : FSM::State {};
int main() { struct { FSM::Instance m; unsigned char tail[300]; } box; memset(box.tail, 0x11, sizeof box.tail);
  unsigned char before[sizeof box]; memcpy(before, &box, sizeof box);
  box.m.schedule<Apex>(); box.m.update();
  const unsigned char* p = reinterpret_cast<const unsigned char*>(&box); int n = 0;
  for (size_t i = sizeof(FSM::Instance); i < sizeof box; ++i) if (p[i] != before[i]) { printf("byte outside the instance changed: offset %zu (instance size %zu): %02x -> %02x\n", i, sizeof(FSM::Instance), before[i], p[i]); n++; }
  printf("changed bytes outside instance: %d\n", n); return 0; }
