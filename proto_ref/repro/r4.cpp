#define HFSM2_ENABLE_UTILITY_THEORY
#include <hfsm2/machine.hpp>
#include <cstdio>
#include <new>
namespace f6 {
using M = hfsm2::Machine;
#define S(s) struct s
using FSM = M::Root<S(Apex), M::Composite<S(P), S(P1), S(P2)>, S(Q)>;
#undef S
static int pex_p1 = -1, pch_p1 = -1, pen_p1 = -1, pex_idle = -1, pch_idle = -1;
struct Apex : FSM::State {}; struct P2 : FSM::State {}; struct Q : FSM::State {};
struct P : FSM::State {};
struct P1 : FSM::State {
  // self-transition request 'changeTo<P1>' while P1 active: region P gets requested=P1==active; root has no request
  void exitGuard(GuardControl& c) { (void)c; }
  void entryGuard(GuardControl& c) { pex_p1 = c.isPendingExit<P1>(); pch_p1 = c.isPendingChange<P1>(); pen_p1 = c.isPendingEnter<P1>();
                                     pex_idle = c.isPendingExit<P>(); pch_idle = c.isPendingChange<P>(); }
};
void run() { FSM::Instance m;  // P, P1 active
  m.immediateChangeTo<P1>();   // re-target P1: root has NO pending request, P is not exited/entered
  printf("F6 inside guard of a round that only re-enters P1: isPendingExit(P)=%d isPendingChange(P)=%d (P is neither exited nor entered); P1: exit=%d change=%d enter=%d\n", pex_idle, pch_idle, pex_p1, pch_p1, pen_p1); }
}
namespace f4 {
using M = hfsm2::Machine;
#define S(s) struct s
using FSM = M::Root<S(Apex), S(A), M::Random<S(R), S(R1), S(R2)>>;
#undef S
struct Apex : FSM::State {}; struct A : FSM::State {}; struct R : FSM::State {}; struct R1 : FSM::State {}; struct R2 : FSM::State {};
void run() { alignas(16) unsigned char s1[sizeof(FSM::Instance)]; auto* a = new (s1) FSM::Instance();
  FSM::Instance b{*a};
  const void* rng_of_b = &b._core.rng; const void* a_lo = s1; const void* a_hi = s1 + sizeof s1;
  printf("F4 copy's rng reference points into the ORIGINAL instance: %d (copy at %p, rng at %p)\n", rng_of_b >= a_lo && rng_of_b < a_hi, (void*)&b, rng_of_b);
  a->~InstanceT(); }
}
int main() { f6::run(); f4::run(); return 0; }
