// native repros of predicted defects, real header
#define HFSM2_ENABLE_PLANS
#define HFSM2_ENABLE_SERIALIZATION
#define HFSM2_ENABLE_UTILITY_THEORY
#include <hfsm2/machine.hpp>
#include <cstdio>
#include <cstring>
#include <new>
namespace f7 {
using M = hfsm2::Machine;
#define S(s) struct s
using FSM = M::Root<S(Apex), S(A), M::Selectable<S(Sel), M::Composite<S(C), S(C1), S(C2)>, S(D)>>;
#undef S
struct Apex : FSM::State {}; struct A : FSM::State {}; struct Sel : FSM::State { hfsm2::Prong select(const Control&) { return 0; } };
struct C : FSM::State {}; static int entered_c1, entered_c2;
struct C1 : FSM::State { void enter(PlanControl&) { entered_c1++; } }; struct C2 : FSM::State { void enter(PlanControl&) { entered_c2++; } }; struct D : FSM::State {};
void run() { FSM::Instance m; m.immediateSelect<Sel>();
  printf("F7 select into region prong: active(C)=%d activeSub(C)=%d active(C1)=%d active(C2)=%d entered C1=%d C2=%d\n", m.isActive<C>(), m.activeSubState<C>(), m.isActive<C1>(), m.isActive<C2>(), entered_c1, entered_c2); }
}
namespace f11 {
using M = hfsm2::Machine; struct Ev {};
#define S(s) struct s
using FSM = M::Root<S(Apex), M::Orthogonal<S(O), S(L1), S(L2)>>;
#undef S
static int got2;
struct Apex : FSM::State {}; struct O : FSM::State {};
struct L1 : FSM::State { using FSM::State::react; void react(const Ev&, EventControl& c) { c.consumeEvent(); } };
struct L2 : FSM::State { using FSM::State::react; void react(const Ev&, EventControl&) { got2++; } };
void run() { FSM::Instance m; m.react(Ev{}); printf("F11 consume among plain orthogonal siblings: L2.react delivered after consume = %d\n", got2); }
}
namespace pk {
using M = hfsm2::Machine;
#define S(s) struct s
using FSM = M::Root<S(Apex), S(A), M::Composite<S(R), S(R1), S(R2)>>;
#undef S
struct Apex : FSM::State { void enter(PlanControl& c) { c.plan().resume<A, R>(); } };
struct A : FSM::State { void update(FullControl& c) { c.succeed(); } };
struct R : FSM::State {}; struct R1 : FSM::State {}; struct R2 : FSM::State {};
void run() { FSM::Instance m; m.immediateChangeTo<R2>(); m.immediateChangeTo<A>();
  // plan was consumed? re-add through root plan
  m.plan().clear(); m.plan().resume<A, R>(); m.update();
  printf("plan task kind: after resume-task into R (R2 resumable): active(R1)=%d active(R2)=%d (resume expected R2)\n", m.isActive<R1>(), m.isActive<R2>()); }
}
namespace f1 {
using M = hfsm2::Machine;
#define S(s) struct s
using FSM = M::Root<S(Apex), S(A), M::Composite<S(R), S(R1), S(R2)>>;
#undef S
struct Apex : FSM::State {}; struct A : FSM::State {}; struct R : FSM::State {}; struct R1 : FSM::State {}; struct R2 : FSM::State {};
void run() { FSM::Instance a, b; a.immediateChangeTo<R2>(); a.immediateChangeTo<A>();           // a: A active, R2 resumable, (root resumable = R)
  b.immediateChangeTo<R1>();                                                                        // b: R1 active
  FSM::Instance::SerialBuffer buf, buf2; a.save(buf); b.load(buf); b.save(buf2);
  printf("F1 load into unrelated config: a.resumable(R2)=%d b.resumable(R2)=%d b.resumable(R1)=%d buffers equal=%d\n", a.isResumable<R2>(), b.isResumable<R2>(), b.isResumable<R1>(), buf == buf2); }
}
namespace f6 {
using M = hfsm2::Machine;
#define S(s) struct s
using FSM = M::Root<S(Apex), M::Composite<S(P), S(P1), S(P2)>, M::Composite<S(Q), S(Q1), S(Q2)>>;
#undef S
static int pe_p1, pc_p1, pe_apexsub;
struct Apex : FSM::State {}; struct P : FSM::State {}; struct P2 : FSM::State {}; struct Q : FSM::State {}; struct Q1 : FSM::State {}; struct Q2 : FSM::State {};
struct P1 : FSM::State { void update(FullControl& c) { (void)c; } };
struct Probe {};
void run() { FSM::Instance m; // P1 active. nothing pending: query registry directly via a guard-less path is not public; use a self transition in P that does not touch... 
  struct G { }; (void)sizeof(G);
  printf("F6 (needs guard context; covered by harness) skipped natively\n"); }
}
namespace re {
using M = hfsm2::Machine;
#define S(s) struct s
using FSM = M::Root<S(Apex), S(A), M::Composite<S(R), S(R1), S(R2)>>;
#undef S
struct Apex : FSM::State {}; struct A : FSM::State {}; struct R : FSM::State {}; struct R1 : FSM::State {}; struct R2 : FSM::State {};
void run() { FSM::Instance m; m.immediateChangeTo<R2>(); m.immediateRestart<R>();
  printf("reenter-switch: after restart<R> from R2: active(R1)=%d resumable(R2)=%d (statement: region remembers sub-state last left)\n", m.isActive<R1>(), m.isResumable<R2>()); }
}
namespace f3 {
using M = hfsm2::Machine;
#define S(s) struct s
using FSM = M::RandomRoot<S(Apex), S(A), S(B), S(C)>;
#undef S
struct Apex : FSM::State {}; struct A : FSM::State {}; struct B : FSM::State {}; struct C : FSM::State {};
void run() { alignas(16) unsigned char s1[sizeof(FSM::Instance)], s2[sizeof(FSM::Instance)]; memset(s1, 0x00, sizeof s1); memset(s2, 0xFF, sizeof s2);
  auto* a = new (s1) FSM::Instance(); auto* b = new (s2) FSM::Instance();
  printf("F3 built-in RNG, prior memory 0x00 vs 0xFF: activeSub(root) = %d vs %d\n", a->activeSubState<Apex>(), b->activeSubState<Apex>()); a->~InstanceT(); b->~InstanceT(); }
}
int main() { f7::run(); f11::run(); pk::run(); f1::run(); re::run(); f3::run(); return 0; }
