#include "fs.c"
unsigned char nondet_uchar(void);
static int nenter[10], nexit[10], phase;
void vf_ev(uint32_t s, uint32_t m){ if (!phase) return; if (m==2) nenter[s]++; if (m==6) nexit[s]++; }
static struct T_class_hfsm2__detail__InstanceT inst;
static int wf(const uint8_t* a, const uint8_t* r){
  if (!(a[0] <= 2)) return 0;
  if (a[0]==1) { if (!(a[1] <= 1)) return 0; } else if (a[1] != 255) return 0;
  if (a[0]==2) { if (!(a[2] <= 1)) return 0; } else if (a[2] != 255) return 0;
  if (!(r[0]==255 || r[0] <= 2)) return 0; if (!(r[1]==255 || r[1] <= 1)) return 0; if (!(r[2]==255 || r[2] <= 1)) return 0;
  return 1; }
int main(void){
  vf_construct(&inst);
  uint8_t *a = vf_compo_active(&inst), *r = vf_compo_resumable(&inst);
  uint8_t a1[3], r1[3], a2[3], r2[3];
  for (int i=0;i<3;i++){ a1[i]=nondet_uchar(); r1[i]=nondet_uchar(); a2[i]=nondet_uchar(); r2[i]=nondet_uchar(); }
  __CPROVER_assume(wf(a1,r1) && wf(a2,r2));
#ifdef RES_NE_ACTIVE
  for (int i=0;i<3;i++) __CPROVER_assume(r1[i]==255 || r1[i]!=a1[i]);
#endif
  static struct T_class_hfsm2__detail__StreamBufferT b1, b2;
  for (int i=0;i<3;i++){ a[i]=a1[i]; r[i]=r1[i]; }
  vf_save(&inst, &b1);
  for (int i=0;i<3;i++) __CPROVER_assert(a[i]==a1[i] && r[i]==r1[i], "save leaves instance untouched");
  for (int i=0;i<3;i++){ a[i]=a2[i]; r[i]=r2[i]; }
  phase = 1; vf_load(&inst, &b1); phase = 0;
#ifdef WITNESS
  __CPROVER_assert(0, "witness");
#endif
  for (int i=0;i<3;i++) __CPROVER_assert(a[i]==a1[i], "C08 active restored");
  for (int i=0;i<3;i++) __CPROVER_assert(r[i]==r1[i], "C08 resumable restored");
  vf_save(&inst, &b2);
  __CPROVER_assert(vf_buf_eq(&b1,&b2), "C08 re-save bit-identical");
  return 0; }
