#include "fr2.c"
int nondet_int(void); unsigned char nondet_uchar(void); signed char nondet_schar(void);
static int phase, budget;
uint32_t vf_cb(uint32_t s, uint32_t m){ if (!phase) return 0; int d = nondet_int(); if (d <= 0) return 0; __CPROVER_assume(d < 5 && budget > 0); budget--; return d; }
int main(void){
  static struct T_class_hfsm2__detail__InstanceT inst; vf_construct(&inst);
  uint8_t *a = vf_compo_active(&inst); a[0] = nondet_uchar(); a[1] = nondet_uchar();
  __CPROVER_assume(a[0] <= 1 && (a[0]==1 ? a[1] <= 1 : a[1]==255));
  int8_t *h = (int8_t*)vf_activity_ptr(&inst); int8_t h0[5];
  for (int s = 0; s < 5; ++s) { h[s] = nondet_schar(); h0[s] = h[s]; }
  phase = 1; budget = 1; vf_update(&inst); phase = 0;
  int changed = 0;
  for (unsigned s = 0; s < 5; ++s) {
    int act = vf_is_active(&inst, s);
    __CPROVER_assert(vf_struct_active(&inst, s) == act, "C16 structure()[s].isActive == isActive(s)");
    int hv = vf_activity(&inst, s);
    __CPROVER_assert(hv == h0[s] || (act ? hv > 0 : hv < 0), "C16 activity sign matches");
    if (hv != h0[s]) { changed = 1; int exp = act ? (h0[s] < 0 ? 1 : (h0[s] < 127 ? h0[s] + 1 : 127)) : (h0[s] > 0 ? -1 : (h0[s] > -128 ? h0[s] - 1 : -128)); __CPROVER_assert(hv == exp, "C16 saturating counter"); }
  }
#ifdef WITNESS
  __CPROVER_assert(!changed, "witness: report updated");
#endif
  return 0; }
