#include <hfsm2/machine.hpp>

extern "C" int  vf_cb(int state, int method);   // nondet decision, records trace
extern "C" void vf_ev(int state, int method);   // trace only

using Config = hfsm2::Config;
using M = hfsm2::MachineT<Config>;

#define S(s) struct s
using FSM = M::Root<S(Apex),
                S(A),
                M::Resumable<S(B), S(B1), S(B2)>
            >;
#undef S

template <int ID>
struct Base : FSM::State {
    void act(FullControl& c, int d) {
        if (d <= 0) return;
        int kind = (d >> 8) & 7;
        hfsm2::StateID dest = (hfsm2::StateID)(d & 0xff);
        switch (kind) {
        case 1: c.changeTo(dest); break;
        case 2: c.restart(dest); break;
        case 3: c.resume(dest); break;
        case 4: c.select(dest); break;
        case 5: c.schedule(dest); break;
        }
    }
    void entryGuard(GuardControl& c) { int d = vf_cb(ID, 1); if (d == -1) c.cancelPendingTransitions(); else act(c, d); }
    void enter(PlanControl&)         { vf_ev(ID, 2); }
    void reenter(PlanControl&)       { vf_ev(ID, 3); }
    void update(FullControl& c)      { act(c, vf_cb(ID, 4)); }
    void exitGuard(GuardControl& c)  { int d = vf_cb(ID, 5); if (d == -1) c.cancelPendingTransitions(); else act(c, d); }
    void exit(PlanControl&)          { vf_ev(ID, 6); }
};

struct Apex : Base<0> {};
struct A  : Base<1> {};
struct B  : Base<2> {};
struct B1 : Base<3> {};
struct B2 : Base<4> {};

using Inst = FSM::Instance;

extern "C" {
__attribute__((noinline)) unsigned vf_sizeof() { return sizeof(Inst); }
__attribute__((noinline)) void vf_construct(Inst* mem) { new (static_cast<void*>(mem)) Inst(); }
__attribute__((noinline)) void vf_destroy(Inst* mem) { mem->~Inst(); }
__attribute__((noinline)) void vf_update(Inst* mem) { mem->update(); }
__attribute__((noinline)) void vf_change(Inst* mem, unsigned s) { mem->immediateChangeTo((hfsm2::StateID)s); }
__attribute__((noinline)) int  vf_is_active(Inst* mem, unsigned s) { return mem->isActive((hfsm2::StateID)s); }
__attribute__((noinline)) int  vf_is_resumable(Inst* mem, unsigned s) { return mem->isResumable((hfsm2::StateID)s); }
__attribute__((noinline)) int  vf_active_sub(Inst* mem, unsigned s) { return mem->activeSubState((hfsm2::StateID)s); }
// white-box accessors (-fno-access-control)
__attribute__((noinline)) unsigned char* vf_compo_active(Inst* mem)    { return &mem->_core.registry.compoActive[0]; }
__attribute__((noinline)) unsigned char* vf_compo_resumable(Inst* mem) { return &mem->_core.registry.compoResumable[0]; }
__attribute__((noinline)) unsigned char* vf_compo_requested(Inst* mem) { return &mem->_core.registry.compoRequested[0]; }
}
