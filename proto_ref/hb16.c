#include "fb16.c"
unsigned nondet_uint(void);
int main(void){
  static struct T_class_hfsm2__detail__BitArrayT a; vf_ba_init(&a);
  unsigned unit = nondet_uint(), width = nondet_uint(); __CPROVER_assume(unit < 2 && width >= 1 && width <= 16 && unit*8 + width <= 16);
  (void)vf_ba_bits_any(&a, unit, width);
  return 0; }
