#include <stdio.h>
#include <stdint.h>
#include <stdlib.h>
#include <string.h>
extern unsigned vf_sizeof(void);
extern void vf_construct(void*), vf_destroy(void*), vf_update(void*), vf_change(void*, unsigned);
extern int vf_is_active(void*, unsigned), vf_is_resumable(void*, unsigned), vf_active_sub(void*, unsigned);
static uint64_t rng = 88172645463325252ULL; static unsigned long h = 1469598103934665603ULL;
static uint64_t nx(void){ rng ^= rng << 13; rng ^= rng >> 7; rng ^= rng << 17; return rng; }
static void mix(int a){ h = (h ^ (unsigned)a) * 1099511628211ULL; }
static int budget; int vf_cb(int s, int m){ mix(s*16+m); uint64_t r = nx(); if (r % 4) return 0; if (budget<=0) return 0; budget--; if (m==1||m==5) { if (r%16==0) return -1; } int kind = 1 + (r>>8)%5; int dest = (r>>16)%10; return (kind<<8)|dest; }
void vf_ev(int s, int m){ mix(s*16+m); }
int main(int argc, char** argv){
  rng ^= argc > 1 ? strtoull(argv[1],0,10) * 0x9E3779B97F4A7C15ULL : 0;
  _Alignas(16) unsigned char mem[4096]; memset(mem, 0xAA, sizeof mem);
  if (vf_sizeof() > sizeof mem) return 2;
  budget=0; vf_construct(mem);
  for (int i = 0; i < 2000; ++i) {
    budget = 2; if (nx()%3==0) vf_change(mem, nx()%10); else vf_update(mem);
    for (unsigned s = 0; s < 10; ++s) { mix(vf_is_active(mem,s)); mix(vf_is_resumable(mem,s)); mix(vf_active_sub(mem,s)); }
  }
  vf_destroy(mem);
  printf("%016lx\n", h); return 0; }
