#define HFSM2_ENABLE_UTILITY_THEORY
#include <hfsm2/machine.hpp>
extern "C" void vf_ev(int state, int method);
using M = hfsm2::Machine;   // default Config: built-in RNGT<float>, Automatic activation
#define S(s) struct s
using FSM = M::RandomRoot<S(Apex), S(A), S(B), S(C)>;
#undef S
template <int ID> struct Base : FSM::State { void enter(PlanControl&) { vf_ev(ID, 2); } };
struct Apex : Base<0> {}; struct A : Base<1> {}; struct B : Base<2> {}; struct C : Base<3> {};
using Inst = FSM::Instance;
extern "C" {
__attribute__((noinline)) void vf_construct(Inst* m) { new (static_cast<void*>(m)) Inst(); }
__attribute__((noinline)) int vf_active_sub(Inst* m) { return m->activeSubState((hfsm2::StateID)0); }
}
