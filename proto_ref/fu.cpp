#define HFSM2_ENABLE_UTILITY_THEORY
#include <hfsm2/machine.hpp>
extern "C" float vf_rand(void);
extern "C" float vf_util(int state);
extern "C" int   vf_rank(int state);
extern "C" void  vf_ev(int state, int method);
struct StubRNG { float next() { return vf_rand(); } };
using Config = hfsm2::Config::RandomT<StubRNG>::SubstitutionLimitN<2>;
using M = hfsm2::MachineT<Config>;
#define S(s) struct s
using FSM = M::Root<S(Apex), S(A), M::Utilitarian<S(U), S(U1), S(U2)>, M::Random<S(N), S(N1), S(N2), S(N3)>>;
#undef S
template <int ID> struct Base : FSM::State {
    Rank rank(const Control&) { return (Rank)vf_rank(ID); }
    Utility utility(const Control&) { return vf_util(ID); }
    void enter(PlanControl&) { vf_ev(ID, 2); } void exit(PlanControl&) { vf_ev(ID, 6); }
};
struct Apex : Base<0> {}; struct A : Base<1> {}; struct U : Base<2> {}; struct U1 : Base<3> {}; struct U2 : Base<4> {};
struct N : Base<5> {}; struct N1 : Base<6> {}; struct N2 : Base<7> {}; struct N3 : Base<8> {};
using Inst = FSM::Instance;
extern "C" {
__attribute__((noinline)) void vf_construct(Inst* m, StubRNG* g) { new (static_cast<void*>(m)) Inst(*g); }
__attribute__((noinline)) void vf_change(Inst* m, unsigned s) { m->immediateChangeTo((hfsm2::StateID)s); }
__attribute__((noinline)) void vf_utilize(Inst* m, unsigned s) { m->immediateUtilize((hfsm2::StateID)s); }
__attribute__((noinline)) void vf_randomize(Inst* m, unsigned s) { m->immediateRandomize((hfsm2::StateID)s); }
__attribute__((noinline)) unsigned char* vf_compo_active(Inst* m) { return &m->_core.registry.compoActive[0]; }
__attribute__((noinline)) unsigned char* vf_compo_resumable(Inst* m) { return &m->_core.registry.compoResumable[0]; }
}
