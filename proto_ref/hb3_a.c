#include "fb2.c"
unsigned nondet_uint(void);
int main(void){
 static struct T_class_hfsm2__detail__StreamBufferT b; static struct T_class_hfsm2__detail__BitWriteStreamT w; static struct T_class_hfsm2__detail__BitReadStreamT r;
 vf_buf_init(&b); vf_w_init(&w,&b);
 vf_w1(&w,0);
 vf_w1(&w,0);
 vf_w1(&w,0);
 vf_w1(&w,0);
 vf_w1(&w,0);
 uint32_t v0 = nondet_uint(); vf_w13(&w, v0);
 uint32_t v1 = nondet_uint(); vf_w32(&w, v1);
 uint32_t v2 = nondet_uint(); vf_w3(&w, v2);
 __CPROVER_assert(vf_w_cursor(&w)==53,"write cursor");
 vf_r_init(&r,&b);
 __CPROVER_assert(vf_r1(&r)==0,"pad");
 __CPROVER_assert(vf_r1(&r)==0,"pad");
 __CPROVER_assert(vf_r1(&r)==0,"pad");
 __CPROVER_assert(vf_r1(&r)==0,"pad");
 __CPROVER_assert(vf_r1(&r)==0,"pad");
 __CPROVER_assert(vf_r13(&r)==(v0 & 8191u),"C18 round trip item 0");
 __CPROVER_assert(vf_r32(&r)==v1,"C18 round trip item 1");
 __CPROVER_assert(vf_r3(&r)==(v2 & 7u),"C18 round trip item 2");
 __CPROVER_assert(vf_r_cursor(&r)==53,"read cursor");
 return 0; }