#include "fu.c"
unsigned char nondet_uchar(void); float nondet_float(void); unsigned nondet_uint(void);
static float rnd, util[9]; static int rk[9], nrand, phase;
float vf_rand(void){ nrand++; return rnd; }
float vf_util(uint32_t s){ return util[s]; }
uint32_t vf_rank(uint32_t s){ return rk[s]; }
void vf_ev(uint32_t s, uint32_t m){}
static int wf(const uint8_t* a, const uint8_t* r){
  if (!(a[0] <= 2)) return 0;
  if (a[0]==1) { if (!(a[1] <= 1)) return 0; } else if (a[1] != 255) return 0;
  if (a[0]==2) { if (!(a[2] <= 2)) return 0; } else if (a[2] != 255) return 0;
  if (!(r[0]==255 || r[0] <= 2)) return 0; if (!(r[1]==255 || r[1] <= 1)) return 0; if (!(r[2]==255 || r[2] <= 2)) return 0;
  return 1; }
int main(void){
  static struct T_class_hfsm2__detail__InstanceT inst; static struct T_struct_StubRNG g;
  for (int s=0;s<9;s++){ unsigned q = nondet_uint(); __CPROVER_assume(q < 8); util[s] = 0.25f * (float)q; rk[s] = nondet_uint() & 1; }
  __CPROVER_assume(util[6] + util[7] + util[8] > 0.0f && (rk[6]==rk[7] && rk[7]==rk[8]));  /* positive top-rank sum (simplified) */
  rnd = nondet_float(); __CPROVER_assume(rnd >= 0.0f && rnd < RMAX);
  rnd = 0.0f; vf_construct(&inst, &g); rnd = nondet_float(); __CPROVER_assume(rnd >= 0.0f && rnd < RMAX);
  uint8_t *a = vf_compo_active(&inst), *r = vf_compo_resumable(&inst);
  for (int i=0;i<3;i++){ a[i]=nondet_uchar(); r[i]=nondet_uchar(); }
  __CPROVER_assume(wf(a,r));
  nrand = 0;
  unsigned d = nondet_uint(); __CPROVER_assume(d >= 1 && d < 9);
#if OP==0
  vf_change(&inst, d);
#elif OP==1
  vf_utilize(&inst, d);
#else
  vf_randomize(&inst, d);
#endif
#ifdef WITNESS
  __CPROVER_assert(nrand == 0, "witness: a random region was resolved");
#endif
  __CPROVER_assert(wf(a,r), "C01/C12 Inv after utility/random step");
  __CPROVER_assert(nrand <= 1, "at most one random number (one random region in this fixture)");
  return 0; }
