#include "fx2.c"
#include <stdint.h>
#include <string.h>




int nondet_int(void); unsigned char nondet_uchar(void);
static int phase = 0, budget = 0;
#define NTR 64
static int tr_n; 
uint32_t vf_cb(uint32_t s, uint32_t m){
  if (!phase) return 0;
  int d = nondet_int();
  if (d == 0) return 0;
  if (d == -1) { __CPROVER_assume(m==1||m==5); return -1; }
#ifdef NO_SUBST
  __CPROVER_assume(m==4);
#endif
  int kind = (d>>8)&7, dest = d & 0xff;
  __CPROVER_assume((d & ~0x7ff) == 0 && kind >= 1 && kind <= 5 && dest >= 0 && dest < 10);
  __CPROVER_assume(budget > 0); budget--;
  return d;
}
void vf_ev(uint32_t s, uint32_t m){ tr_n++; }
static struct T_class_hfsm2__detail__InstanceT inst;
#define mem (&inst)
static int wf(void){
  unsigned char *a = vf_compo_active(mem), *r = vf_compo_resumable(mem), *q = vf_compo_requested(mem);
  if (!(a[0] <= 2)) return 0;
  if (a[0]==1) { if (!(a[1] <= 1)) return 0; } else if (a[1] != 255) return 0;
  if (a[0]==2) { if (!(a[2] <= 1)) return 0; } else if (a[2] != 255) return 0;
  if (!(r[0]==255 || r[0] <= 2)) return 0;
  if (!(r[1]==255 || r[1] <= 1)) return 0;
  if (!(r[2]==255 || r[2] <= 1)) return 0;
  if (q[0]!=255||q[1]!=255||q[2]!=255) return 0;
  return 1;
}
int main(void){
  __CPROVER_assert(vf_sizeof() <= sizeof inst, "size");
  vf_construct(mem);
  unsigned char *a = vf_compo_active(mem), *r = vf_compo_resumable(mem);
  for (int i = 0; i < 3; ++i) { a[i] = nondet_uchar(); r[i] = nondet_uchar(); }
  __CPROVER_assume(wf());
  phase = 1; budget = 3;
#ifdef OP_CHANGE
  unsigned s = nondet_uchar(); __CPROVER_assume(s < 10);
  vf_change(mem, s);
#else
  vf_update(mem);
#endif
  phase = 0;
#ifdef WITNESS
  __CPROVER_assert(0, "witness reachable");
#endif
  __CPROVER_assert(wf(), "C01 well-formed after step");
  // API-level cross-check
  __CPROVER_assert(vf_is_active(mem,0), "root active");
  for (unsigned s = 1; s < 10; ++s) {
    static const int parent[10] = {-1,0,0,2,2,0,5,6,6,5};
    if (vf_is_active(mem,s)) __CPROVER_assert(vf_is_active(mem,parent[s]), "parent active");
  }
  return 0;
}
