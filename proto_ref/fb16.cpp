#define HFSM2_ENABLE_SERIALIZATION
#include <hfsm2/machine.hpp>
using namespace hfsm2; using namespace hfsm2::detail;
using Buf = StreamBufferT<64>; using W = BitWriteStreamT<64>; using R = BitReadStreamT<64>;
using BA = BitArrayT<16>;
template <int N> static void wr(W& w, uint32_t v) { w.write<N>((UBitWidth<N>)v); }
template <int N> static uint32_t rd(R& r) { return r.read<N>(); }
extern "C" {
__attribute__((noinline)) void vf_buf_init(Buf* b) { new (static_cast<void*>(b)) Buf(); }
// write k items with widths chosen from a small class set, starting after 'lead' pad bits
__attribute__((noinline)) unsigned vf_write(Buf* b, unsigned lead, const unsigned* wc, const uint32_t* v, unsigned n) {
  W w{*b}; for (unsigned i = 0; i < lead; ++i) w.write<1>(0);
  for (unsigned i = 0; i < n; ++i) switch (wc[i]) { case 0: wr<1>(w, v[i]); break; case 1: wr<3>(w, v[i]); break; case 2: wr<8>(w, v[i]); break; case 3: wr<13>(w, v[i]); break; default: wr<32>(w, v[i]); }
  return w.cursor(); }
__attribute__((noinline)) unsigned vf_read(const Buf* b, unsigned lead, const unsigned* wc, uint32_t* v, unsigned n) {
  R r{*b}; for (unsigned i = 0; i < lead; ++i) r.read<1>();
  for (unsigned i = 0; i < n; ++i) switch (wc[i]) { case 0: v[i] = rd<1>(r); break; case 1: v[i] = rd<3>(r); break; case 2: v[i] = rd<8>(r); break; case 3: v[i] = rd<13>(r); break; default: v[i] = rd<32>(r); }
  return r.cursor(); }
__attribute__((noinline)) void vf_ba_init(BA* a) { new (static_cast<void*>(a)) BA(); }
__attribute__((noinline)) void vf_ba_set(BA* a, unsigned i) { a->set(i); }
__attribute__((noinline)) void vf_ba_clear(BA* a, unsigned i) { a->clear(i); }
__attribute__((noinline)) int  vf_ba_get(const BA* a, unsigned i) { return a->get(i); }
__attribute__((noinline)) int  vf_ba_empty(const BA* a) { return a->empty(); }
__attribute__((noinline)) int  vf_ba_bits_any(BA* a, unsigned unit, unsigned width) { Units u{(Short)unit, (Short)width}; return (bool)a->bits(u); }
}
