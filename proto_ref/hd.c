#include "fd.c"
struct T_class_hfsm2__detail__InstanceT nondet_inst(void);
static int which, tr[2][8], n[2];
void vf_ev(uint32_t s, uint32_t m){ if (n[which] < 8) tr[which][n[which]++] = s*16+m; }
int main(void){
  static struct T_class_hfsm2__detail__InstanceT i1, i2;
  i1 = nondet_inst(); i2 = nondet_inst();           /* arbitrary, different prior storage content */
  which = 0; vf_construct(&i1);
  which = 1; vf_construct(&i2);
  __CPROVER_assert(n[0] == n[1], "C10 same number of callbacks");
  for (int k = 0; k < 8; ++k) __CPROVER_assert(k >= n[0] || tr[0][k] == tr[1][k], "C10 same callbacks whatever the storage held");
  __CPROVER_assert(vf_active_sub(&i1) == vf_active_sub(&i2), "C10 same initial choice");
  return 0; }
