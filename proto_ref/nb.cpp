#define HFSM2_ENABLE_SERIALIZATION
#include <hfsm2/machine.hpp>
#include <cstdio>
using namespace hfsm2::detail;
int main(){ StreamBufferT<64> b; BitWriteStreamT<64> w{b}; for(int i=0;i<5;i++) w.write<1>(0); w.write<13>(0x1abc & 0x1fff); w.write<32>(0xDEADBEEFu); w.write<3>(5);
  BitReadStreamT<64> r{b}; for(int i=0;i<5;i++) r.read<1>(); unsigned a=r.read<13>(); unsigned x=r.read<32>(); unsigned c=r.read<3>();
  printf("13-bit %x, 32-bit %08x (expected deadbeef), 3-bit %u\n", a, x, c); return 0; }
