#include "fb.c"
unsigned nondet_uint(void);
static const unsigned WID[5] = {1,3,8,13,32};
int main(void){
#if K==1
  static struct T_class_hfsm2__detail__StreamBufferT b; vf_buf_init(&b);
  unsigned lead = LEAD, n = nondet_uint(); __CPROVER_assume(n <= 3);
  unsigned wc[3]; uint32_t v[3], o[3]; unsigned total = lead;
  wc[0]=W0; wc[1]=W1; wc[2]=W2; for (int i=0;i<3;i++){ v[i]=nondet_uint(); if (i < n) total += WID[wc[i]]; }
  __CPROVER_assume(total <= 64);
  unsigned c1 = vf_write(&b, lead, wc, v, n), c2 = vf_read(&b, lead, wc, o, n);
  __CPROVER_assert(c1 == total && c2 == total, "cursors");
  for (int i=0;i<3;i++) if (i < n) __CPROVER_assert(o[i] == (WID[wc[i]] == 32 ? v[i] : (v[i] & ((1u << WID[wc[i]]) - 1))), "C18 stream round trip");
#else
  static struct T_class_hfsm2__detail__BitArrayT a; vf_ba_init(&a);
  unsigned ghost = 0;
  for (int s = 0; s < 5; ++s) { unsigned i = nondet_uint(); __CPROVER_assume(i < 17); if (nondet_uint() & 1) { vf_ba_set(&a, i); ghost |= 1u << i; } else { vf_ba_clear(&a, i); ghost &= ~(1u << i); } }
  unsigned j = nondet_uint(); __CPROVER_assume(j < 17);
  __CPROVER_assert(vf_ba_get(&a, j) == ((ghost >> j) & 1), "C18 set semantics");
  __CPROVER_assert(vf_ba_empty(&a) == (ghost == 0), "empty");
  unsigned unit = nondet_uint(), width = nondet_uint(); __CPROVER_assume(unit < 3 && width >= 1 && width <= 17 && unit*8 + width <= 17);
  unsigned mask = (width >= 32 ? ~0u : ((1u << width) - 1)) << (unit*8);
  __CPROVER_assert(vf_ba_bits_any(&a, unit, width) == ((ghost & mask) != 0), "view emptiness = emptiness of its range");
#endif
  return 0; }
