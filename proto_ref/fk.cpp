#define HFSM2_ENABLE_UTILITY_THEORY
#include <hfsm2/machine.hpp>
extern "C" float vf_rand(void);
struct StubRNG { float next() { return vf_rand(); } };
using Config = hfsm2::Config::RandomT<StubRNG>::ManualActivation;
using M = hfsm2::MachineT<Config>;
#define S(s) struct s
using FSM = M::RandomRoot<S(Apex), S(A), S(B), S(C)>;
#undef S
struct Apex : FSM::State {}; struct A : FSM::State {}; struct B : FSM::State {}; struct C : FSM::State {};
using Inst = FSM::Instance;
extern "C" __attribute__((noinline)) unsigned vf_resolve(Inst* m, const float* u, float sum, const signed char* r, signed char top) {
    using Apx = Inst::Apex; Inst::Control control{m->_core};
    float uu[3] = {u[0], u[1], u[2]}; signed char rr[3] = {r[0], r[1], r[2]};
    return m->_apex.resolveRandom(control, uu, sum, rr, top);
}
extern "C" __attribute__((noinline)) void vf_construct(Inst* m, StubRNG* g) { new (static_cast<void*>(m)) Inst(*g); }
