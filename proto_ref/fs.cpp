#define HFSM2_ENABLE_SERIALIZATION
#include <hfsm2/machine.hpp>
extern "C" void vf_ev(int state, int method);
using Config = hfsm2::Config::SubstitutionLimitN<2>;
using M = hfsm2::MachineT<Config>;
#define S(s) struct s
using FSM = M::Root<S(Apex), S(A), M::Composite<S(B), S(B1), S(B2)>, M::Orthogonal<S(O), M::Resumable<S(R), S(R1), S(R2)>, S(L)>>;
#undef S
template <int ID> struct Base : FSM::State {
    void enter(PlanControl&) { vf_ev(ID, 2); } void reenter(PlanControl&) { vf_ev(ID, 3); } void exit(PlanControl&) { vf_ev(ID, 6); }
};
struct Apex : Base<0> {}; struct A : Base<1> {}; struct B : Base<2> {}; struct B1 : Base<3> {}; struct B2 : Base<4> {};
struct O : Base<5> {}; struct R : Base<6> {}; struct R1 : Base<7> {}; struct R2 : Base<8> {}; struct L : Base<9> {};
using Inst = FSM::Instance; using Buf = Inst::SerialBuffer;
extern "C" {
__attribute__((noinline)) void vf_construct(Inst* m) { new (static_cast<void*>(m)) Inst(); }
__attribute__((noinline)) void vf_save(Inst* m, Buf* b) { m->save(*b); }
__attribute__((noinline)) void vf_load(Inst* m, const Buf* b) { m->load(*b); }
__attribute__((noinline)) int  vf_buf_eq(const Buf* a, const Buf* b) { return *a == *b; }
__attribute__((noinline)) unsigned vf_buf_bytes() { return sizeof(Buf); }
__attribute__((noinline)) unsigned char* vf_compo_active(Inst* m) { return &m->_core.registry.compoActive[0]; }
__attribute__((noinline)) unsigned char* vf_compo_resumable(Inst* m) { return &m->_core.registry.compoResumable[0]; }
}
