#define HFSM2_ENABLE_UTILITY_THEORY
#include <hfsm2/machine.hpp>
using namespace hfsm2::detail;
extern "C" {
__attribute__((noinline)) uint64_t vf_sm64_raw(uint64_t* st) { SimpleRandomT<8> r{*st}; uint64_t v = r.raw64(); *st = r._state; return v; }
__attribute__((noinline)) uint64_t vf_sm64_nz(uint64_t* st) { SimpleRandomT<8> r{*st}; uint64_t v = r.uint64(); *st = r._state; return v; }
__attribute__((noinline)) uint64_t vf_xp64(uint64_t* s) { FloatRandomT<8> r{*reinterpret_cast<const uint64_t(*)[4]>(s)}; uint64_t v = r.uint64(); memcpy(s, &r, 32); return v; }
__attribute__((noinline)) uint64_t vf_xss64(uint64_t* s) { IntRandomT<8> r{*reinterpret_cast<const uint64_t(*)[4]>(s)}; uint64_t v = r.uint64(); memcpy(s, &r, 32); return v; }
__attribute__((noinline)) void vf_xp64_jump(uint64_t* s) { FloatRandomT<8> r{*reinterpret_cast<const uint64_t(*)[4]>(s)}; r.jump(); memcpy(s, &r, 32); }
__attribute__((noinline)) float vf_uniform32(uint32_t x) { return uniform(x); }
__attribute__((noinline)) double vf_uniform64(uint64_t x) { return uniform(x); }
__attribute__((noinline)) void vf_seed64(uint64_t seed, uint64_t* out) { FloatRandomT<8> r{seed}; memcpy(out, &r, 32); }
}
