#include "fk.c"
float nondet_float(void); signed char nondet_schar(void);
static float rnd;
float vf_rand(void){ return rnd; }
int main(void){
  static struct T_class_hfsm2__detail__InstanceT inst; static struct T_struct_StubRNG g;
  vf_construct(&inst, &g);
  float u[3]; signed char r[3];
  for (int i=0;i<3;i++){ u[i]=nondet_float(); r[i]=nondet_schar(); __CPROVER_assume(u[i] >= 0.0f && u[i] <= 1.0e6f); }
  signed char top = r[0]; if (r[1]>top) top=r[1]; if (r[2]>top) top=r[2];
  float sum = 0; for (int i=0;i<3;i++) { if (r[i]!=top) u[i]=0.0f; }
  sum = (u[0]+u[1])+u[2];   /* tree order of CS_ halves: ((A)+(B,C))? probe only */
  __CPROVER_assume(sum > 0.0f);
  rnd = nondet_float(); __CPROVER_assume(rnd >= 0.0f && rnd < 1.0f);
  unsigned p = vf_resolve(&inst, u, sum, r, top);
  __CPROVER_assert(p < 3, "C12 never none");
  if (p < 3) { __CPROVER_assert(r[p]==top, "top rank only"); __CPROVER_assert(u[p] > 0.0f, "never zero utility"); }
  return 0; }
