#define HFSM2_ENABLE_PLANS
#include <hfsm2/machine.hpp>
using namespace hfsm2; using namespace hfsm2::detail;
using TL = TaskListT<void, 3>;
extern "C" {
__attribute__((noinline)) void vf_tl_init(TL* t) { new (static_cast<void*>(t)) TL(); }
__attribute__((noinline)) unsigned vf_tl_emplace(TL* t, unsigned o, unsigned d, unsigned k) { return t->emplace((StateID)o, (StateID)d, (TransitionType)k); }
__attribute__((noinline)) void vf_tl_remove(TL* t, unsigned i) { t->remove((Long)i); }
__attribute__((noinline)) unsigned vf_tl_count(TL* t) { return t->count(); }
__attribute__((noinline)) unsigned vf_tl_origin(TL* t, unsigned i) { return (*t)[(Long)i].origin; }
__attribute__((noinline)) unsigned vf_tl_dest(TL* t, unsigned i) { return (*t)[(Long)i].destination; }
}
