#include "ft.c"
unsigned nondet_uint(void); _Bool nondet_bool(void);
#define C 3
int main(void){
  static struct T_class_hfsm2__detail__TaskListT tl; vf_tl_init(&tl);
  int live[C] = {0,0,0}; unsigned go[C], gd[C]; int n = 0;
  for (int step = 0; step < 7; ++step) {
    if (nondet_bool()) {
      unsigned o = nondet_uint() & 0xff, d = nondet_uint() & 0xff;
      if (n < C) {
        unsigned i = vf_tl_emplace(&tl, o, d, 0);
        __CPROVER_assert(i < C && !live[i], "insert returns a free slot");
        live[i] = 1; go[i] = o; gd[i] = d; n++;
      }
    } else {
      unsigned i = nondet_uint(); __CPROVER_assume(i < C && live[i]);
      vf_tl_remove(&tl, i); live[i] = 0; n--;
    }
    __CPROVER_assert(vf_tl_count(&tl) == (unsigned)n, "count == live slots");
    for (unsigned i = 0; i < C; ++i) if (live[i]) __CPROVER_assert(vf_tl_origin(&tl,i)==go[i] && vf_tl_dest(&tl,i)==gd[i], "live items keep contents");
  }
  return 0; }
