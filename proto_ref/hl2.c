#include "fl.c"
static int nlog;
uint32_t vf_cb(uint32_t s, uint32_t m){ return 0; }
void vf_log(uint32_t kind, uint32_t a, uint32_t b, uint32_t c){ nlog++; }
int main(void){
  static struct T_class_hfsm2__detail__InstanceT inst; static struct T_struct_Logger lg;
  vf_logger_construct(&lg); vf_construct(&inst, &lg);
  __CPROVER_assert(nlog == 0, "witness: logger called during construction");
  return 0; }
