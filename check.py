#!/usr/bin/env python3
"""usage: check.py <property id> [--tier quick|thorough] [--replay path]
Regenerates everything from /repo's current working tree; exit 0 = held on everything explored,
1 = VIOLATION line printed, 2 = machinery fault (never a violation)."""
import os, sys, json, importlib, argparse, time
HERE = os.path.dirname(os.path.abspath(__file__))
sys.path.insert(0, os.path.join(HERE, 'vlib')); sys.path.insert(0, HERE)

def main():
    ap = argparse.ArgumentParser()
    ap.add_argument('pid'); ap.add_argument('--tier', default=os.environ.get('VERIF_TIER', 'quick'))
    ap.add_argument('--replay'); ap.add_argument('--only', default=None, help='glob on case names (debugging)')
    a = ap.parse_args()
    seed = int(os.environ.get('VERIF_SEED', '1') or 1)
    if a.only: os.environ['VERIF_ONLY'] = a.only
    mod = importlib.import_module('props.' + a.pid.lower())
    from core import Broken, log
    try:
        if a.replay:
            rc = mod.replay(a.replay) if hasattr(mod, 'replay') else __import__('engine').generic_replay(a.replay, mod)
        else:
            rc = mod.run(a.tier, seed)
    except Broken as e:
        log('BROKEN: %s' % e); rc = 2
    except Exception as e:                      # a machinery fault is never reported as a violation
        import traceback; traceback.print_exc()
        log('BROKEN: unexpected %r' % e); rc = 2
    sys.exit(rc)

if __name__ == '__main__':
    main()
