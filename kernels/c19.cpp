// C19 fixture: TaskListT<void|payload, C>, DynamicArrayT<Transition, C>, StaticArrayT behind extern "C" wrappers
#define HFSM2_ENABLE_PLANS
#include <hfsm2/machine.hpp>
using namespace hfsm2; using namespace hfsm2::detail;
#define W extern "C" __attribute__((noinline))
#define TL(C) \
struct TL##C { TaskListT<void, C> v; }; \
W void     k_tl##C##_init(TL##C* o)  { new (&o->v) TaskListT<void, C>(); } \
W unsigned k_tl##C##_emplace(TL##C* o, unsigned og, unsigned ds, unsigned ty) { return o->v.emplace((StateID)og, (StateID)ds, (TransitionType)ty); } \
W void     k_tl##C##_remove(TL##C* o, unsigned i) { o->v.remove((Long)i); } \
W void     k_tl##C##_clear(TL##C* o) { o->v.clear(); } \
W unsigned k_tl##C##_count(TL##C* o) { return o->v.count(); } \
W int      k_tl##C##_empty(TL##C* o) { return o->v.empty(); } \
W unsigned k_tl##C##_origin(TL##C* o, unsigned i) { return o->v[(Long)i].origin; } \
W unsigned k_tl##C##_dest(TL##C* o, unsigned i) { return o->v[(Long)i].destination; } \
W unsigned k_tl##C##_type(TL##C* o, unsigned i) { return (unsigned)o->v[(Long)i].type; } \
W uint16_t* k_tl##C##_hdr(TL##C* o, unsigned w) { return w == 0 ? &o->v._vacantHead : w == 1 ? &o->v._vacantTail : w == 2 ? &o->v._last : &o->v._count; } \
W uint16_t* k_tl##C##_prev(TL##C* o, unsigned i) { return &o->v._items[i].prev; } \
W uint16_t* k_tl##C##_next(TL##C* o, unsigned i) { return &o->v._items[i].next; } \
W uint8_t*  k_tl##C##_ty(TL##C* o, unsigned i) { return reinterpret_cast<uint8_t*>(&o->v._items[i].type); }
TL(1) TL(2) TL(3) TL(5)

// payload flavour
struct TLP3 { TaskListT<uint32_t, 3> v; };
W void     k_tlp3_init(TLP3* o) { new (&o->v) TaskListT<uint32_t, 3>(); }
W unsigned k_tlp3_emplace(TLP3* o, unsigned og, unsigned ds, unsigned ty, uint32_t pl) { return o->v.emplace((StateID)og, (StateID)ds, (TransitionType)ty, pl); }
W unsigned k_tlp3_emplace_np(TLP3* o, unsigned og, unsigned ds, unsigned ty) { return o->v.emplace((StateID)og, (StateID)ds, (TransitionType)ty); }
W void     k_tlp3_remove(TLP3* o, unsigned i) { o->v.remove((Long)i); }
W unsigned k_tlp3_count(TLP3* o) { return o->v.count(); }
W unsigned k_tlp3_origin(TLP3* o, unsigned i) { return o->v[(Long)i].origin; }
W unsigned k_tlp3_dest(TLP3* o, unsigned i) { return o->v[(Long)i].destination; }
W unsigned k_tlp3_type(TLP3* o, unsigned i) { return (unsigned)o->v[(Long)i].type; }
W int      k_tlp3_has_payload(TLP3* o, unsigned i) { return o->v[(Long)i].payload() != nullptr; }
W uint32_t k_tlp3_payload(TLP3* o, unsigned i) { const uint32_t* p = o->v[(Long)i].payload(); return p ? *p : 0xdeadbeefu; }

// bounded array of transitions (the type of the request queue / transition sets)
using Tr = TransitionT<void>;
struct DA4 { DynamicArrayT<Tr, 4> v; }; struct DA2 { DynamicArrayT<Tr, 2> v; };
W void     k_da4_init(DA4* o) { new (&o->v) DynamicArrayT<Tr, 4>(); }
W void     k_da2_init(DA2* o) { new (&o->v) DynamicArrayT<Tr, 2>(); }
W unsigned k_da4_emplace(DA4* o, unsigned og, unsigned ds, unsigned ty) { return o->v.emplace(Tr{(StateID)og, (StateID)ds, (TransitionType)ty}); }
W unsigned k_da2_emplace(DA2* o, unsigned og, unsigned ds, unsigned ty) { return o->v.emplace(Tr{(StateID)og, (StateID)ds, (TransitionType)ty}); }
W unsigned k_da4_count(DA4* o) { return o->v.count(); }
W int      k_da4_empty(DA4* o) { return o->v.empty(); }
W void     k_da4_clear(DA4* o) { o->v.clear(); }
W void     k_da4_append2(DA4* o, DA2* p) { o->v += p->v; }
W void     k_da4_append4(DA4* o, DA4* p) { o->v += p->v; }
W void     k_da4_copy(DA4* o, DA4* p) { o->v = p->v; }
W unsigned k_da4_origin(DA4* o, unsigned i) { return o->v[i].origin; }
W unsigned k_da4_dest(DA4* o, unsigned i) { return o->v[i].destination; }
W unsigned k_da4_type(DA4* o, unsigned i) { return (unsigned)o->v[i].type; }
W unsigned k_da4_iter_sum(DA4* o) { unsigned s = 0, k = 1; for (const Tr& t : o->v) { s += k * (t.destination + 1u); k *= 7; } return s; }

// fixed array of prongs (the type of the fork arrays)
struct SA5 { StaticArrayT<Short, 5> v; };
W void     k_sa5_init(SA5* o) { new (&o->v) StaticArrayT<Short, 5>(); }
W void     k_sa5_init_fill(SA5* o, unsigned f) { new (&o->v) StaticArrayT<Short, 5>((Short)f); }
W void     k_sa5_fill(SA5* o, unsigned f) { o->v.fill((Short)f); }
W void     k_sa5_clear(SA5* o) { o->v.clear(); }
W int      k_sa5_empty(SA5* o) { return o->v.empty(); }
W int      k_sa5_ne(SA5* o, SA5* p) { return o->v != p->v; }
W uint8_t* k_sa5_at(SA5* o, unsigned i) { return &o->v[i]; }
