// C20 fixture: the bundled generators of the real header, behind extern "C" wrappers.
#define HFSM2_ENABLE_UTILITY_THEORY
#include <hfsm2/machine.hpp>
using namespace hfsm2::detail;
struct SM8 { SimpleRandomT<8> v; };   struct SM4 { SimpleRandomT<4> v; };
struct F8  { FloatRandomT<8> v; };    struct F4  { FloatRandomT<4> v; };
struct I8  { IntRandomT<8> v; };      struct I4  { IntRandomT<4> v; };
struct RF  { hfsm2::RNGT<float> v; };
#define W extern "C" __attribute__((noinline))
W uint64_t k_sm8_raw(SM8* o)            { return o->v.raw64(); }
W uint64_t k_sm8_uint(SM8* o)           { return o->v.uint64(); }
W void     k_sm8_ctor(SM8* o, uint64_t s) { new (&o->v) SimpleRandomT<8>(s); }
W uint32_t k_sm4_raw(SM4* o)            { return o->v.raw32(); }
W uint32_t k_sm4_uint(SM4* o)           { return o->v.uint32(); }
W void     k_sm4_ctor(SM4* o, uint32_t s) { new (&o->v) SimpleRandomT<4>(s); }
W uint64_t* k_sm8_state(SM8* o)         { return &o->v._state; }
W uint32_t* k_sm4_state(SM4* o)         { return &o->v._state; }

W void     k_f8_ctor_seed(F8* o, uint64_t s) { new (&o->v) FloatRandomT<8>(s); }
W void     k_f8_ctor_def(F8* o)         { new (&o->v) FloatRandomT<8>(); }
W uint64_t* k_f8_state(F8* o)           { return &o->v._state[0]; }
W uint64_t k_f8_u64(F8* o)              { return o->v.uint64(); }
W uint32_t k_f8_u32(F8* o)              { return o->v.uint32(); }
W float    k_f8_f32(F8* o)              { return o->v.float32(); }
W double   k_f8_f64(F8* o)              { return o->v.float64(); }
W float    k_f8_next(F8* o)             { return o->v.next(); }
W void     k_f8_jump(F8* o)             { o->v.jump(); }

W void     k_f4_ctor_seed(F4* o, uint32_t s) { new (&o->v) FloatRandomT<4>(s); }
W uint32_t* k_f4_state(F4* o)           { return &o->v._state[0]; }
W uint64_t k_f4_u64(F4* o)              { return o->v.uint64(); }
W uint32_t k_f4_u32(F4* o)              { return o->v.uint32(); }
W float    k_f4_f32(F4* o)              { return o->v.float32(); }
W double   k_f4_f64(F4* o)              { return o->v.float64(); }
W float    k_f4_next(F4* o)             { return o->v.next(); }
W void     k_f4_jump(F4* o)             { o->v.jump(); }

W void     k_i8_ctor_seed(I8* o, uint64_t s) { new (&o->v) IntRandomT<8>(s); }
W uint64_t* k_i8_state(I8* o)           { return &o->v._state[0]; }
W uint64_t k_i8_u64(I8* o)              { return o->v.uint64(); }
W uint32_t k_i8_u32(I8* o)              { return o->v.uint32(); }
W float    k_i8_f32(I8* o)              { return o->v.float32(); }
W double   k_i8_f64(I8* o)              { return o->v.float64(); }
W void     k_i8_jump(I8* o)             { o->v.jump(); }

W void     k_i4_ctor_seed(I4* o, uint32_t s) { new (&o->v) IntRandomT<4>(s); }
W uint32_t* k_i4_state(I4* o)           { return &o->v._state[0]; }
W uint64_t k_i4_u64(I4* o)              { return o->v.uint64(); }
W uint32_t k_i4_u32(I4* o)              { return o->v.uint32(); }
W float    k_i4_f32(I4* o)              { return o->v.float32(); }
W double   k_i4_f64(I4* o)              { return o->v.float64(); }
W void     k_i4_jump(I4* o)             { o->v.jump(); }

W float    k_uniform32(uint32_t x)      { return uniform(x); }
W double   k_uniform64(uint64_t x)      { return uniform(x); }

W void     k_rf_ctor_seed(RF* o, uint64_t s) { new (&o->v) hfsm2::RNGT<float>(s); }
W void     k_rf_ctor_def(RF* o)         { new (&o->v) hfsm2::RNGT<float>(); }
W float    k_rf_next(RF* o)             { return o->v.next(); }
W uint64_t* k_rf_state(RF* o)           { return &o->v._state[0]; }
