// C18 fixture: BitArrayT<N> (+ Bits/CBits views) and StreamBufferT/BitWriteStreamT/BitReadStreamT<N>
#define HFSM2_ENABLE_SERIALIZATION
#include <hfsm2/machine.hpp>
using namespace hfsm2; using namespace hfsm2::detail;
#define W extern "C" __attribute__((noinline))
#define BA(N, LASTI) \
struct BA##N { BitArrayT<N> v; }; \
W void k_ba##N##_init(BA##N* o) { new (&o->v) BitArrayT<N>(); } \
W int  k_ba##N##_get(BA##N* o, unsigned i) { return o->v.get(i); } \
W void k_ba##N##_set(BA##N* o, unsigned i) { o->v.set(i); } \
W void k_ba##N##_clear(BA##N* o, unsigned i) { o->v.clear(i); } \
W void k_ba##N##_set_all(BA##N* o) { o->v.set(); } \
W void k_ba##N##_clear_all(BA##N* o) { o->v.clear(); } \
W int  k_ba##N##_empty(BA##N* o) { return o->v.empty(); } \
W int  k_ba##N##_ne(BA##N* o, BA##N* p) { return o->v != p->v; } \
W int  k_ba##N##_and(BA##N* o, BA##N* p) { return o->v & p->v; } \
W void k_ba##N##_andeq(BA##N* o, BA##N* p) { o->v &= p->v; } \
W int  k_ba##N##_sget0(BA##N* o) { return o->v.get<0>(); } \
W void k_ba##N##_sset0(BA##N* o) { o->v.set<0>(); } \
W void k_ba##N##_sclear0(BA##N* o) { o->v.clear<0>(); } \
W int  k_ba##N##_sgetL(BA##N* o) { return o->v.get<LASTI>(); } \
W void k_ba##N##_ssetL(BA##N* o) { o->v.set<LASTI>(); } \
W void k_ba##N##_sclearL(BA##N* o) { o->v.clear<LASTI>(); } \
W int  k_ba##N##_v_bool(BA##N* o, unsigned u, unsigned w) { return (bool)o->v.bits(Units{(Short)u, (Short)w}); } \
W int  k_ba##N##_cv_bool(BA##N* o, unsigned u, unsigned w) { return (bool)o->v.cbits(Units{(Short)u, (Short)w}); } \
W int  k_ba##N##_v_get(BA##N* o, unsigned u, unsigned w, unsigned i) { return o->v.bits(Units{(Short)u, (Short)w}).get(i); } \
W int  k_ba##N##_cv_get(BA##N* o, unsigned u, unsigned w, unsigned i) { return o->v.cbits(Units{(Short)u, (Short)w}).get(i); } \
W void k_ba##N##_v_set(BA##N* o, unsigned u, unsigned w, unsigned i) { o->v.bits(Units{(Short)u, (Short)w}).set(i); } \
W void k_ba##N##_v_clear(BA##N* o, unsigned u, unsigned w, unsigned i) { o->v.bits(Units{(Short)u, (Short)w}).clear(i); } \
W void k_ba##N##_v_clear_all(BA##N* o, unsigned u, unsigned w) { o->v.bits(Units{(Short)u, (Short)w}).clear(); } \
W unsigned char* k_ba##N##_raw(BA##N* o) { return &o->v._storage[0]; }
BA(1, 0) BA(7, 6) BA(8, 7) BA(9, 8) BA(16, 15) BA(17, 16) BA(24, 23) BA(40, 39)
// static views incl. static-index members of views
struct BA24S { BitArrayT<24> v; };
W int  k_ba24_sv_bool_1_8(BA24* o)   { return (bool)o->v.bits<1, 8>(); }
W int  k_ba24_sv_bool_1_5(BA24* o)   { return (bool)o->v.bits<1, 5>(); }
W int  k_ba24_scv_bool_0_13(BA24* o) { return (bool)o->v.cbits<0, 13>(); }
W int  k_ba24_sv_get3_1_8(BA24* o)   { return o->v.bits<1, 8>().get<3>(); }
W void k_ba24_sv_set3_1_8(BA24* o)   { o->v.bits<1, 8>().set<3>(); }
W void k_ba24_sv_clear3_1_8(BA24* o) { o->v.bits<1, 8>().clear<3>(); }

#define WS_W(N, B) W void k_ws##N##_w##B(WS##N* s, uint32_t v) { s->v.write<B>((UBitWidth<B>)v); } \
                   W uint32_t k_rs##N##_r##B(RS##N* s) { return s->v.read<B>(); }
#define STREAM(N) \
struct SB##N { StreamBufferT<N> v; }; struct WS##N { BitWriteStreamT<N> v; }; struct RS##N { BitReadStreamT<N> v; }; \
W void k_sb##N##_init(SB##N* b) { new (&b->v) StreamBufferT<N>(); } \
W unsigned char* k_sb##N##_data(SB##N* b) { return &b->v.data()[0]; } \
W unsigned k_sb##N##_bytes() { return sizeof(b_size_##N); } \
W int  k_sb##N##_eq(SB##N* a, SB##N* b) { return a->v == b->v; } \
W int  k_sb##N##_ne(SB##N* a, SB##N* b) { return a->v != b->v; } \
W void k_ws##N##_init(WS##N* s, SB##N* b) { new (&s->v) BitWriteStreamT<N>(b->v); } \
W void k_rs##N##_init(RS##N* s, SB##N* b) { new (&s->v) BitReadStreamT<N>(b->v); } \
W unsigned k_ws##N##_cursor(WS##N* s) { return s->v.cursor(); } \
W unsigned k_rs##N##_cursor(RS##N* s) { return s->v.cursor(); } \
WS_W(N,1) WS_W(N,2) WS_W(N,3) WS_W(N,4) WS_W(N,5) WS_W(N,6) WS_W(N,7) WS_W(N,8) WS_W(N,9) WS_W(N,10) WS_W(N,11) WS_W(N,12) WS_W(N,13) WS_W(N,14) WS_W(N,15) WS_W(N,16) \
WS_W(N,17) WS_W(N,18) WS_W(N,19) WS_W(N,20) WS_W(N,21) WS_W(N,22) WS_W(N,23) WS_W(N,24) WS_W(N,25) WS_W(N,26) WS_W(N,27) WS_W(N,28) WS_W(N,29) WS_W(N,30) WS_W(N,31) WS_W(N,32)
typedef StreamBufferT<32> b_size_32; typedef StreamBufferT<64> b_size_64; typedef StreamBufferT<100> b_size_100; typedef StreamBufferT<136> b_size_136;
STREAM(32) STREAM(64) STREAM(100) STREAM(136)
