#!/bin/bash
# trial of the thorough commands on the unchanged tree with a small admission budget (exit code and machinery check)
cd /verif
out=/tmp/w0/thorough_trial3.out; : > $out
for p in "$@"; do
  s=$(date +%s); VERIF_THOROUGH_BUDGET_S=${BUDGET:-240} VERIF_TIMEOUT_CAP_S=${CAP:-600} VERIF_EVIDENCE_SUFFIX=.thorough python3 check.py $p --tier thorough > /tmp/w0/thor_$p.log 2>&1; rc=$?
  echo "$p rc=$rc $(( $(date +%s) - s ))s viol=$(grep -cE '^VIOLATION' /tmp/w0/thor_$p.log) broken=$(grep -cE '^BROKEN' /tmp/w0/thor_$p.log) known=$(grep -cE '^KNOWN-FINDING' /tmp/w0/thor_$p.log) noverdict=$(grep -cE '^NO-VERDICT' /tmp/w0/thor_$p.log) $(grep -E '^NOT-EXPLORED' /tmp/w0/thor_$p.log | cut -c1-60)" >> $out
done
echo DONE >> $out
