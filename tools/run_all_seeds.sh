#!/bin/bash
# runs every seeded change against the check of its property (worktree copy of /repo, see run_seed_wt.sh)
cd /verif
out=/tmp/w0/seeds_final.out; : > $out
run() { tools/run_seed_wt.sh "$@" >> $out 2>&1; }
run C20_a C20 quick; run C18_a C18 quick; run C19_a C19 quick; run C11_a C19 quick
run C05_a C05 quick; run C08_a C08 quick; run C14_a C14 quick; run C17_a C17 quick
run C03_a C03 quick; run C04_a C04 quick 'c04.f5.*'; run C13_a C13 quick; run C09_a C09 quick
run C10_a C10 quick; run C12_a C12 quick; run C07_a C07 quick; run C02_a C02 quick 'c02.f10.batch2_d1_d*'
run C15_a C15 quick; run C06_a C06 quick
run C01_a C01 thorough 'c01.fdo.*'
echo DONE >> $out
