#!/bin/bash
# usage: replay_dbg.sh <replay.json>  -> rebuilds the native harness against the real header and prints a readable trace
python3 - "$1" <<'PY'
import sys, json, os
sys.path.insert(0, '/verif/vlib'); sys.path.insert(0, '/verif')
from engine import *
import importlib
rp = json.load(open(sys.argv[1])); pid = rp['property']
mod = importlib.import_module('props.' + pid.lower())
os.environ['VERIF_ONLY'] = rp['case']
cases = mod.cases('thorough') + (mod.cases('quick') if not isinstance(mod.cases('quick'), tuple) else [])
if isinstance(cases, tuple): cases = cases[0]
c = [x for x in cases if x.name == rp['case']][0]
defs = [d for d in rp['defs'] if not d.startswith('VF_TABLES=')] + [d for d in c.defs if d.startswith('VF_TABLES=')]
c2 = Case(c.name + '_dbg', c.fixture, c.harness, defs, native_defs=c.native_defs)
exe = native_pair(c2, c.fixture['workdir'])
env = dict(os.environ, VF_DEBUG='1', VF_INPUTS=','.join(str(v) for v in rp['runs'][0]['inputs']))
import subprocess; print(subprocess.run([exe], env=env, stdout=subprocess.PIPE, stderr=subprocess.STDOUT, universal_newlines=True).stdout)
PY
