#!/usr/bin/env python3
"""records in seeded/<id>/meta.json which registered check was run against the seed and what it reported
(verify_seed.sh rewrites meta.json, so this is re-run after any re-verification; seed_meta.py adds the descriptions)"""
import json, os
DET = {
 'C01_a': ('C01', 'thorough', "c01.fdo.req2_*", 'caught (violations in the two-request batches below the deep orthogonal region); the quick tier does not reach it'),
 'C01_b': ('C01', 'quick', "c01.fdo.*", 'caught (4 violations)'),
 'C02_a': ('C02', 'quick', "c02.f10.batch2_d1_d*", 'caught (4 violations)'),
 'C02_b': ('C18', 'quick', None, 'caught by C18 (4 violations); not by C02'),
 'C03_a': ('C03', 'quick', "c03.f5.*", 'caught'),
 'C03_b': ('C03', 'quick', "c03.fw5*", 'caught (5 violations)'),
 'C04_a': ('C04', 'quick', "c04.f5.*", 'caught (8 violations)'),
 'C04_b': ('C04', 'quick', "c04.foroot*", 'caught (4 violations)'),
 'C05_a': ('C05', 'quick', None, 'caught (3 violations)'),
 'C05_b': ('C05', 'quick', "c05.*query", 'missed at first (harness vacuity, DESIGN.md section 12), caught after the repair'),
 'C06_a': ('C06', 'quick', "c06.fp[no]*", 'missed by the root-only harness, caught by the nested-plan cases added for it'),
 'C06_b': ('C18', 'quick', None, 'caught by C18 (2 violations); not by C06'),
 'C07_a': ('C07', 'quick', None, 'caught (ops5)'),
 'C07_b': ('C07', 'quick', None, 'caught (1 violation)'),
 'C08_a': ('C08', 'quick', None, 'caught (6 violations)'),
 'C08_b': ('C08', 'quick', "c08.fw5*", 'caught (2 violations)'),
 'C09_a': ('C09', 'quick', None, 'caught (2 violations)'),
 'C10_a': ('C10', 'quick', None, 'caught (copy_update)'),
 'C10_b': ('C10', 'quick', "c10.*copy_plans", 'missed at first, caught by the copy_plans case added for it'),
 'C11_a': ('C19', 'quick', None, 'caught by C19 (pool kernel)'),
 'C12_a': ('C12', 'quick', None, 'caught (2 violations; patch re-based onto the resolveRandom fix)'),
 'C12_b': ('C01', 'quick', "c01.fnn.*", 'caught by C01 (region active without active sub-state); C12 itself does not see it'),
 'C13_a': ('C13', 'quick', None, 'caught (2 violations)'),
 'C13_b': ('C13', 'quick', "c13.foo.*", 'caught (5 violations)'),
 'C14_a': ('C14', 'quick', None, 'caught (1 violation)'),
 'C15_a': ('C15', 'quick', "c15.*plans_payload*", 'caught (plan_exec)'),
 'C02_c': ('C12', 'quick', "c12.fnu*", 'missed by the quick tier at first (caught by thorough); the nested utilitarian fixture was moved into the quick tier: caught'),
 'C04_c': ('C04', 'quick', "c04.f5.*", 'caught (8 violations: round bound)'),
 'C06_c': ('C15', 'quick', "c15.*plans_payload*", 'caught by C15 (payload vs void configuration differ); C06 fixtures have no payload'),
 'C08_c': ('C08', 'quick', "c08.fo3c*", 'caught by C17 (ACTIVE_BITS) at once; by C08 after the buffer-size clause and the three-composite orthogonal root were added'),
 'C09_c': ('C09', 'quick', "c09.*replay_enter*", 'missed at first (no replayEnter case existed), caught by the case added for it'),
 'C16_c': ('C16', 'quick', "c16.*report*", 'caught (1 violation: saturating counter)'),
 'C16_a': ('C16', 'quick', None, 'caught (orthogonal-root case)'),
 'C17_a': ('C17', 'quick', None, 'caught twice (compile rejection + table comparison)'),
 'C18_a': ('C18', 'quick', None, 'caught (4 violations)'),
 'C19_a': ('C19', 'quick', None, 'caught (6 violations)'),
 'C20_a': ('C20', 'quick', None, 'caught (4 violations)'),
}
def main():
    for sid, (chk, tier, only, res) in DET.items():
        p = '/verif/seeded/%s/meta.json' % sid
        if not os.path.exists(p): print('missing', sid); continue
        m = json.load(open(p))
        m['check_run'] = 'tools/run_seed_wt.sh %s %s %s%s   (scratch worktree of /repo HEAD + patch.diff, then VERIF_REPO=<worktree> python3 check.py %s --tier %s%s)' % (
            sid, chk, tier, (" '%s'" % only) if only else '', chk, tier, (" --only '%s'" % only) if only else '')
        m['detection'] = res
        json.dump(m, open(p, 'w'), indent=1)
    print('ok')
if __name__ == '__main__': main()
