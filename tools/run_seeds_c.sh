#!/bin/bash
cd /verif
out=/tmp/w0/seedsC.out; : > $out
run() { tools/run_seed_wt.sh "$@" >> $out 2>&1; }
run C03_a C03 quick 'c03.f5.*'
run C16_a C16 quick
run C01_b C01 quick 'c01.fdo.*'
run C02_a C02 quick 'c02.f10.batch2_d1_d*'
run C01_a C01 thorough 'c01.fdo.req2_d[5-9]*'
echo DONE >> $out
