#!/bin/bash
cd /verif
out=/tmp/w0/seedsB2.out; : > $out
run() { tools/run_seed_wt.sh "$@" >> $out 2>&1; }
run C12_b C01 quick 'c01.fnn.*'
run C13_b C13 quick 'c13.foo.*'
run C08_b C08 quick 'c08.fw5*'
run C05_b C05 quick
run C14_b C14 quick
run C15_b C15 quick
run C12_a C12 quick
echo DONE >> $out
