#!/usr/bin/env python3
"""adds the human-written description fields to seeded/<id>/meta.json (what it breaks, what it needs to manifest)"""
import json, os
D = {
 'C20_a': ('C20', 'uniform(uint32/uint64) rewritten as an integer-to-float multiply: inputs with the top 25 (float) / 54 (double) bits set round to exactly 1.0', 'a specific seed and stream position (e.g. FloatRandomT<8>{179625}, 202nd draw) or a crafted state'),
 'C18_a': ('C18', 'Bits/CBits::operator bool rewritten: the last full storage unit of a view is never examined when width % 8 == 0', 'a view whose width is a multiple of 8 with all set bits in its last unit'),
 'C19_a': ('C19', 'TaskListT::clear() no longer resets _last', 'use the pool, clear(), then insert more than CAPACITY-k items: out-of-bounds slot'),
 'C11_a': ('C11', 'TaskListT::clear() no longer resets _last (plan pool): append after exit()/enter() or load() writes out of bounds', 'ManualActivation + plans: append, exit(), enter(), append more than TASK_CAPACITY - _last'),
 'C12_a': ('C12', 'resolveRandom: cursor > utility instead of >=: zero-utility sub-state selectable, boundary values pick the previous sub-state', 'random*sum exactly on a cumulative boundary (e.g. r == 0 with a leading zero-utility top-rank option)'),
 'C07_a': ('C07', 'PlanT::remove resets the link before reading link.prev for the successor', 'remove a middle task, later remove its former successor while a predecessor is still in the plan'),
 'C01_a': ('C01', 'requestImmediate third loop marks an orthogonal prong only if no prong of that region is marked yet', 'orthogonal region containing nested composites, two requests in one update through different prongs, region destination'),
 'C02_a': ('C02', 'requestImmediate second phase (generic registry only) drops the clause that lets a later request override an earlier one', 'a machine with an orthogonal region, two queued requests where the earlier moves a region off its active sub-state and the later targets two levels below it'),
 'C03_a': ('C03', 'C_::deepReenter exits the sub-state AFTER overwriting active: exit delivered to a never-entered state, the real one never exited', 'a region re-targeted while active so that it switches its sub-state, or load() differing only below an active region'),
 'C04_a': ('C04', 'GuardControl hoisted out of the round loop: the cancelled flag stays set, later rounds cannot be vetoed', 'a vetoed round, a substitution, and a cancel in a later round of the same call'),
 'C05_a': ('C05', 'PostReactWrapper<BottomUp> no longer re-checks _consumed between head and sub-states', 'BottomUpReactions, event consumed by a region head in postReact, plain active sub-state'),
 'C06_a': ('C06', 'deepUpdatePlans returns early on a head status before running the nested regions plans', 'two region levels, a nested plan-owning region succeeds while an ancestor head has a status from postUpdate or the root API'),
 'C08_a': ('C08', 'load() no longer clears resumables and the loaders no longer write "none": stale resumable marks survive a load', 'destination instance active with a resumable mark in a region where the source has none'),
 'C09_a': ('C09', 'processTransitions no longer re-takes the registry back-up after an approved round', 'a step with an approved round followed by a vetoed or no-op round'),
 'C10_a': ('C10', 'CoreT copy constructor omits planData', 'plans enabled, a plan in flight at the moment of the copy, then update() on both'),
 'C13_a': ('C13', 'isPendingEnter returns false at orthogonal forks whose prong bit is not requested', 'an inactive orthogonal region activated by a request whose destination is the region, an ancestor or a sibling'),
 'C14_a': ('C14', 'TransitionT copy assignment never clears payloadSet', 'a slot that held a payloaded transition is overwritten by a payload-less one (next step, or substituted round)'),
 'C15_a': ('C15', 'payload copy of updatePlan drops the special case for cyclic tasks', 'plans + PayloadT<> configured, a cyclic task X->X followed by X->Y, X succeeds'),
 'C17_a': ('C17', 'RHalfCST adds LHalf ORTHO_UNITS instead of ORTHO_COUNT to the ortho index', 'an orthogonal region with >= 9 sub-states in the left half of a composite, another region in the right half'),
 'C16_a': ('C16', '', ''),
}
for sid, (pid, what, needs) in D.items():
    p = os.path.join('/verif/seeded', sid, 'meta.json')
    if not os.path.exists(p): continue
    m = json.load(open(p)); m.update(property=pid, breaks=what, needs_to_manifest=needs)
    json.dump(m, open(p, 'w'), indent=1)
print('ok')
