#!/usr/bin/env python3
"""adds the human-written description fields to seeded/<id>/meta.json (what it breaks, what it needs to manifest)"""
import json, os
D = {
 'C20_a': ('C20', 'uniform(uint32/uint64) rewritten as an integer-to-float multiply: inputs with the top 25 (float) / 54 (double) bits set round to exactly 1.0', 'a specific seed and stream position (e.g. FloatRandomT<8>{179625}, 202nd draw) or a crafted state'),
 'C18_a': ('C18', 'Bits/CBits::operator bool rewritten: the last full storage unit of a view is never examined when width % 8 == 0', 'a view whose width is a multiple of 8 with all set bits in its last unit'),
 'C19_a': ('C19', 'TaskListT::clear() no longer resets _last', 'use the pool, clear(), then insert more than CAPACITY-k items: out-of-bounds slot'),
 'C11_a': ('C11', 'TaskListT::clear() no longer resets _last (plan pool): append after exit()/enter() or load() writes out of bounds', 'ManualActivation + plans: append, exit(), enter(), append more than TASK_CAPACITY - _last'),
 'C12_a': ('C12', 'resolveRandom: cursor > utility instead of >=: zero-utility sub-state selectable, boundary values pick the previous sub-state', 'random*sum exactly on a cumulative boundary (e.g. r == 0 with a leading zero-utility top-rank option)'),
 'C07_a': ('C07', 'PlanT::remove resets the link before reading link.prev for the successor', 'remove a middle task, later remove its former successor while a predecessor is still in the plan'),
 'C01_a': ('C01', 'requestImmediate third loop marks an orthogonal prong only if no prong of that region is marked yet', 'orthogonal region containing nested composites, two requests in one update through different prongs, region destination'),
 'C02_a': ('C02', 'requestImmediate second phase (generic registry only) drops the clause that lets a later request override an earlier one', 'a machine with an orthogonal region, two queued requests where the earlier moves a region off its active sub-state and the later targets two levels below it'),
 'C03_a': ('C03', 'C_::deepReenter exits the sub-state AFTER overwriting active: exit delivered to a never-entered state, the real one never exited', 'a region re-targeted while active so that it switches its sub-state, or load() differing only below an active region'),
 'C04_a': ('C04', 'GuardControl hoisted out of the round loop: the cancelled flag stays set, later rounds cannot be vetoed', 'a vetoed round, a substitution, and a cancel in a later round of the same call'),
 'C05_a': ('C05', 'PostReactWrapper<BottomUp> no longer re-checks _consumed between head and sub-states', 'BottomUpReactions, event consumed by a region head in postReact, plain active sub-state'),
 'C06_a': ('C06', 'deepUpdatePlans returns early on a head status before running the nested regions plans', 'two region levels, a nested plan-owning region succeeds while an ancestor head has a status from postUpdate or the root API'),
 'C08_a': ('C08', 'load() no longer clears resumables and the loaders no longer write "none": stale resumable marks survive a load', 'destination instance active with a resumable mark in a region where the source has none'),
 'C09_a': ('C09', 'processTransitions no longer re-takes the registry back-up after an approved round', 'a step with an approved round followed by a vetoed or no-op round'),
 'C10_a': ('C10', 'CoreT copy constructor omits planData', 'plans enabled, a plan in flight at the moment of the copy, then update() on both'),
 'C13_a': ('C13', 'isPendingEnter returns false at orthogonal forks whose prong bit is not requested', 'an inactive orthogonal region activated by a request whose destination is the region, an ancestor or a sibling'),
 'C14_a': ('C14', 'TransitionT copy assignment never clears payloadSet', 'a slot that held a payloaded transition is overwritten by a payload-less one (next step, or substituted round)'),
 'C15_a': ('C15', 'payload copy of updatePlan drops the special case for cyclic tasks', 'plans + PayloadT<> configured, a cyclic task X->X followed by X->Y, X succeeds'),
 'C17_a': ('C17', 'RHalfCST adds LHalf ORTHO_UNITS instead of ORTHO_COUNT to the ortho index', 'an orthogonal region with >= 9 sub-states in the left half of a composite, another region in the right half'),
 'C02_c': ('C02', 'C_::deepReportUtilize returns the best sub-state index of the nested region instead of the region index in its parent', 'utilize on a Utilitarian region one of whose candidates is a composite region that wins, with differing indices'),
 'C04_c': ('C04', 'processTransitions round loop rewritten as do/while with a post-increment test: SUBSTITUTION_LIMIT + 1 rounds', 'a chain of guard substitutions as long as the limit'),
 'C06_c': ('C06', 'payload copy of updatePlan clears the origin success mark inside the task loop: a second task with the same origin is not executed', 'PayloadT<> configured, two non-cyclic tasks sharing one origin'),
 'C08_c': ('C08', 'OSI_::ACTIVE_BITS takes the max instead of the sum over orthogonal sub-regions: SerialBuffer too small', 'orthogonal region with >= 2 composite sub-regions and a bit count crossing a byte boundary (three 2-wide composites under an orthogonal root)'),
 'C09_c': ('C09', 'replayEnter() requests the default configuration with restart instead of change', 'Manual activation, history, a Selectable/Utilitarian region on the default activation path that the replayed requests do not re-resolve'),
 'C16_c': ('C16', 'activityHistory clamp tests INT8_MIN in the active branch: the counter wraps to -128 after 127', 'structure report, a state active for 128 consecutive report updates'),
 'C16_a': ('C16', 'cancelPendingTransitions() logs only the first cancellation of a guard pass', 'logger attached, two orthogonal siblings both cancel in the same guard pass'),
 'C01_b': ('C01', 'requestImmediate (generic registry) third loop no longer marks the orthogonal prong of already-active forks above the destination', 'orthogonal region with two nested composite levels in one prong, both active, destination an INACTIVE region (not a leaf)'),
 'C02_b': ('C02', 'Bits/CBits::operator bool computes the last unit as (width-1)/8 and masks it with width%8: empty mask when width is a multiple of 8', 'an orthogonal region with exactly 8 (16, ..) sub-states entered from outside with a destination below a nested region'),
 'C03_b': ('C03', 'CS_::wideReenter picks the half with prong <= L_PRONG instead of prong < R_PRONG', 'a composite region of width >= 4, active sub-state at a non-first position of a left half, restarted in place'),
 'C04_b': ('C04', 'O_::deepForwardEntry/ExitGuard lost the fall-back that forwards to all prongs when none is individually requested', 'orthogonal ROOT and a request whose destination is the root itself: no guard runs, the round is applied'),
 'C05_b': ('C05', 'ConstControlT::resetRegion() also clears _consumed', 'consumeQuery() in a nested region with a later orthogonal sibling (TopDown) or enclosing heads (BottomUp)'),
 'C06_b': ('C06', 'BitArrayT::set() masks the last unit with (CAPACITY-1)%8: the highest valid bit stays clear', 'STATE_COUNT % 8 != 0, a plan task whose origin is the LAST state, another plan-owning region processed first in the same step'),
 'C07_b': ('C07', 'PlanT::remove() no longer resets link.prev of the freed slot', 'remove a non-first task, append into an empty plan (reuses the slot), remove that head'),
 'C08_b': ('C08', 'CS_::wideLoadRequested picks the half with prong <= L_PRONG', 'a composite region of width >= 4 whose active sub-state at a non-first left-half position is itself a region'),
 'C10_b': ('C10', 'TaskT copy constructor never sets payloadSet', 'plans + payload, a task appended with a payload, the instance copied while the plan is outstanding'),
 'C12_b': ('C12', 'deepReportRandomize/deepReportChangeRandom return early when the head utility is 0, skipping resolveRandom', 'a Random region (head utility 0) nested in an orthogonal region that is a sub-state of a Random region'),
 'C13_b': ('C13', 'isPendingEnter (generic registry) hops at most one orthogonal level', 'an orthogonal region nested directly in an orthogonal region, a request entering the outer one'),
}
for sid, (pid, what, needs) in D.items():
    p = os.path.join('/verif/seeded', sid, 'meta.json')
    if not os.path.exists(p): continue
    m = json.load(open(p)); m.update(property=pid, breaks=what, needs_to_manifest=needs)
    json.dump(m, open(p, 'w'), indent=1)
print('ok')
