#!/bin/bash
# usage: verify_seed.sh <agent worktree dir> <seed name> <property id>
# Confirms independently, in a fresh scratch worktree of /repo HEAD: (1) demo passes on the clean tree, (2) patch applies,
# (3) existing test suite builds and passes with the patch, (4) demo fails with the patch.  Stores the seed under /verif/seeded/<name>/.
src=$1; name=$2; pid=$3
out=/verif/seeded/$name; mkdir -p $out
cp $src/MUTATION/patch.diff $out/patch.diff; cp $src/MUTATION/demo.cpp $out/demo.cpp; cp $src/MUTATION/README.md $out/README.agent.md 2>/dev/null
v=/tmp/wt/verify_$name; rm -rf $v; git -C /repo worktree prune; git -C /repo worktree add --detach $v HEAD >/dev/null 2>&1 || { echo "worktree failed"; exit 2; }
cd $v
flags=$(grep -oE "^// *FLAGS:.*" $out/demo.cpp | sed 's/.*FLAGS://')
g++ -std=c++14 -I$v/include $flags $out/demo.cpp -o /tmp/wt/vd_$name 2> /tmp/wt/vd_$name.err; c0=$?
timeout 120 /tmp/wt/vd_$name > /tmp/wt/vd_$name.clean.out 2>&1; r_clean=$?
git apply $out/patch.diff; a=$?
g++ -std=c++14 -I$v/include $flags $out/demo.cpp -o /tmp/wt/vd_$name 2>> /tmp/wt/vd_$name.err; c1=$?
timeout 120 /tmp/wt/vd_$name > /tmp/wt/vd_$name.mut.out 2>&1; r_mut=$?
cmake -G Ninja -B _build -DHFSM2_BUILD_TESTS=ON -DCMAKE_BUILD_TYPE=RelWithDebInfo >/dev/null 2>&1
cmake --build _build -j8 > /tmp/wt/vd_$name.build.out 2>&1; b=$?
tests=$(grep -E "test cases:" /tmp/wt/vd_$name.build.out | tail -1)
ctest --test-dir _build --timeout 900 > /tmp/wt/vd_$name.ctest.out 2>&1; t=$?
cd /; git -C /repo worktree remove --force $v
python3 - <<PY
import json
meta = dict(seed="$name", property="$pid", base_commit="$(git -C /repo rev-parse --short HEAD)",
  compile_clean=$c0, demo_exit_clean=$r_clean, patch_applies=($a==0), compile_mutated=$c1, demo_exit_mutated=$r_mut,
  tests_build_exit=$b, tests_summary="""$tests""".strip(), ctest_exit=$t,
  confirmed=($c0==0 and $r_clean==0 and $a==0 and $c1==0 and $r_mut!=0 and $b==0 and $t==0),
  demo_output_mutated=open("/tmp/wt/vd_$name.mut.out", errors="replace").read()[-600:],
  ran=["g++ -std=c++14 -I<worktree>/include demo.cpp && ./demo  (clean tree: exit 0 required)", "git apply patch.diff", "cmake -G Ninja -B _build -DHFSM2_BUILD_TESTS=ON && cmake --build _build && ctest  (must pass)", "g++ ... demo.cpp && ./demo  (patched tree: non-zero required)"])
json.dump(meta, open("$out/meta.json", "w"), indent=1); print(json.dumps({k: meta[k] for k in ("seed","confirmed","demo_exit_clean","demo_exit_mutated","tests_summary","ctest_exit")}))
PY
rm -f /tmp/wt/vd_$name /tmp/wt/vd_$name.*
