#!/bin/bash
cd /verif
out=/tmp/w0/seedsD.out; : > $out
run() { tools/run_seed_wt.sh "$@" >> $out 2>&1; }
run C08_c C17 quick
run C08_c C08 quick
run C16_c C16 quick 'c16.*report*'
run C04_c C04 quick 'c04.f5.*'
run C06_c C15 quick 'c15.*plans_payload*'
run C02_c C12 quick
run C09_c C09 quick
run C02_c C12 thorough 'c12.fnu*'
echo DONE >> $out
