#!/bin/bash
# second batch of seeded changes against the checks expected to catch them
cd /verif
out=/tmp/w0/seedsB.out; : > $out
run() { tools/run_seed_wt.sh "$@" >> $out 2>&1; }
run C01_b C01 quick 'c01.fdo.*'
run C03_b C03 quick 'c03.fw5*'
run C04_b C04 quick 'c04.foroot*'
run C02_b C18 quick
run C06_b C18 quick
run C07_b C07 quick
run C10_b C10 quick
run C06_b C06 quick
echo DONE >> $out
