#!/bin/bash
# final pass: every registered quick command, sequentially, on the unchanged tree; writes evidence/*.json
cd /verif
out=/tmp/w0/allquick.out; : > $out
for p in C20 C19 C18 C17 C05 C08 C14 C03 C16 C10 C07 C06 C12 C15 C13 C09 C04 C11 C02 C01; do
  s=$(date +%s); python3 check.py $p --tier quick > /tmp/w0/final_$p.log 2>&1; rc=$?
  echo "$p rc=$rc $(( $(date +%s) - s ))s viol=$(grep -cE '^VIOLATION' /tmp/w0/final_$p.log) broken=$(grep -cE '^BROKEN' /tmp/w0/final_$p.log) known=$(grep -cE '^KNOWN-FINDING' /tmp/w0/final_$p.log) noverdict=$(grep -cE '^NO-VERDICT' /tmp/w0/final_$p.log)" >> $out
done
echo DONE >> $out
