#!/bin/bash
# usage: run_seed_wt.sh <seed> <pid> [tier] [only]  -> runs the check against a scratch worktree of /repo with the seed applied
# (VERIF_REPO), so several seeds can be tried concurrently without touching /repo. Build dir is per-seed.
seed=$1; pid=$2; tier=${3:-quick}; only=$4
wt=/tmp/wt/run_$seed; rm -rf $wt; git -C /repo worktree prune; git -C /repo worktree add --detach $wt HEAD >/dev/null 2>&1 || exit 3
git -C $wt apply /verif/seeded/$seed/patch.diff || { echo "patch does not apply"; git -C /repo worktree remove --force $wt; exit 3; }
cd /verif
if [ -n "$only" ]; then VERIF_REPO=$wt VERIF_BUILD_TAG=_$seed VERIF_EVIDENCE_SUFFIX=.seed_$seed python3 check.py $pid --tier $tier --only "$only" > /tmp/seedrun_${seed}_$pid.log 2>&1
else VERIF_REPO=$wt VERIF_BUILD_TAG=_$seed VERIF_EVIDENCE_SUFFIX=.seed_$seed python3 check.py $pid --tier $tier > /tmp/seedrun_${seed}_$pid.log 2>&1; fi
rc=$?
git -C /repo worktree remove --force $wt
echo "seed=$seed check=$pid tier=$tier rc=$rc $(grep -cE '^VIOLATION' /tmp/seedrun_${seed}_$pid.log) violations, $(grep -cE '^BROKEN' /tmp/seedrun_${seed}_$pid.log) broken"; grep -E "^VIOLATION|^BROKEN" /tmp/seedrun_${seed}_$pid.log | cut -c1-300 | head -4
