#!/usr/bin/env python3
"""usage: mk_agent_task.py <pid> [variant]  -> creates /tmp/wt/<pid><variant> worktree of /repo HEAD and prints the agent prompt"""
import json, os, subprocess, sys
pid = sys.argv[1]; var = sys.argv[2] if len(sys.argv) > 2 else ''
wt = '/tmp/wt/%s%s' % (pid, var)
os.makedirs('/tmp/wt', exist_ok=True)
if not os.path.exists(wt):
    subprocess.check_call(['git', '-C', '/repo', 'worktree', 'add', '--detach', wt, 'HEAD'], stdout=subprocess.DEVNULL, stderr=subprocess.DEVNULL)
p = [json.loads(l) for l in open('/verif/properties.jsonl') if json.loads(l)['id'] == pid][0]
hint = {'': '', 'b': ' Prefer a different kind of change than the most obvious one: e.g. an off-by-one on a boundary value, a condition that is only wrong for a particular structure shape (headless region, orthogonal sibling, odd width, nested region as a sub-state), or two cooperating edits.',
        'c': ' Prefer a subtle change in a rarely exercised branch (a specific request kind, a specific combination of features, a boundary value of an index/width/capacity).'}[var]
print(f"""You are working in a scratch git worktree of the HFSM2 C++ library (header-only hierarchical FSM framework) at {wt}. Work ONLY inside {wt}; do not read or touch /verif or /repo.

Here is a semantic property of the library that is supposed to always hold (JSON record):

{json.dumps(p, indent=1)}

Your task: produce a realistic change (a plausible regression / bug a maintainer could introduce) to the library source that BREAKS this property, while the library still compiles and the existing test suite still passes. The tests include `include/hfsm2/machine.hpp` (the single-header flavour), so the change must be made in `include/hfsm2/machine.hpp`; if the same code also exists under `development/hfsm2/...` mirror the change there too so both flavours stay in sync. Do not edit tests.

The change must need something specific to manifest - a multi-step sequence of operations, an unusual input or boundary value, a particular machine structure or feature combination, or two cooperating sites that each look fine alone - not something ordinary use would expose at once (the existing tests must not notice it).{hint}

Steps:
1. Read the relevant code. Make the change (keep it small: a few lines).
2. Build and run the existing test suite and confirm it passes WITH your change:
   cd {wt} && cmake -G Ninja -B _build -DHFSM2_BUILD_TESTS=ON -DCMAKE_BUILD_TYPE=RelWithDebInfo >/dev/null && cmake --build _build -j4 2>&1 | tail -5 && ctest --test-dir _build --timeout 900 | tail -3
   (the build runs the test binary as a post-build step; it must end with all doctest cases passed)
3. Write a small self-contained demonstration program {wt}/MUTATION/demo.cpp (plain C++14, `#include <hfsm2/machine.hpp>`, public API only plus whatever feature macros it needs, exits 0 when the property holds and non-zero with a message when it is violated). Confirm: compiled against the ORIGINAL header (use `git stash` or `git diff > patch; git checkout -- .`) it exits 0; compiled against the CHANGED header it exits non-zero. Compile with: g++ -std=c++14 -I{wt}/include MUTATION/demo.cpp -o /tmp/wt/demo_{pid}{var}
4. Leave the change applied in the worktree and also save it as {wt}/MUTATION/patch.diff (output of `git diff -- include development`, must apply with `git apply` on a clean checkout). Write {wt}/MUTATION/README.md: what the change is, which part of the property it breaks, what exactly is needed for it to manifest, and the commands you ran with their results.
5. Remove the _build directory when done (disk space is limited).

Report back: a short description of the change, what it needs to manifest, and confirmation of each of the checks above (tests pass with the change; demo passes without, fails with). If you cannot find a change that passes the existing tests, say so rather than delivering one that the tests catch.""")
