#!/bin/bash
# usage: run_seed.sh <seed name> <property id> [tier] [only-glob]   -> applies seeded/<seed>/patch.diff to /repo, runs the check, reverts
seed=$1; pid=$2; tier=${3:-quick}; only=$4
cd /verif
git -C /repo diff --quiet || { echo "/repo not clean"; exit 3; }
git -C /repo apply /verif/seeded/$seed/patch.diff || { echo "patch does not apply"; exit 3; }
if [ -n "$only" ]; then python3 check.py $pid --tier $tier --only "$only" > /tmp/seedrun_$seed.log 2>&1; else VERIF_EVIDENCE_SUFFIX=.seed python3 check.py $pid --tier $tier > /tmp/seedrun_$seed.log 2>&1; fi
rc=$?
git -C /repo checkout -- .
echo "seed=$seed check=$pid tier=$tier rc=$rc"; grep -E "^VIOLATION|^BROKEN|^KNOWN" /tmp/seedrun_$seed.log | cut -c1-400 | head -8
