/* FSM-level harness (all machine-level properties).  One real instance (constructed by the real constructor, so the
 * static structure tables inside it are the library's own), dynamic state havocked under the representation invariant
 * Inv, exactly one public API entry, callbacks = nondeterministic stubs.  Compile-time selection:
 *   -DENTRY=<n> [-DKIND=k] [-DDEST=s]   which API entry runs          -DP_<prop>   which oracle is asserted
 *   -DFROM_CONSTRUCTION                 no havoc: start from the constructed instance (BMC-from-construction)
 * The same file is compiled natively (VF_NATIVE) against the real object code for counterexample replay. */
#include "vf_native.h"
#include VF_TABLES
#if defined(VF_NATIVE) && !defined(VF_TRANSLATED)
#include VF_TYPES
#else
#include VF_FIXTURE
#endif
#ifdef WITNESS
#define END __CPROVER_assert(0, "witness: end of harness reachable")
#else
#define END ((void)0)
#endif
#define INVALID 255
#if defined(VF_NATIVE)
#include <stdio.h>
#include <stdlib.h>
#define DBG(...) do { if (getenv("VF_DEBUG")) { printf(__VA_ARGS__); } } while (0)
#else
#define DBG(...) ((void)0)
#endif
#define E_UPDATE 1
#define E_IMM 2
#define E_REQ_UPDATE 3
#define E_RESET 4
#define E_REACT 5
#define E_QUERY 6
#define E_ENTER 7
#define E_EXIT 8
#define E_NONE 9
#define E_SAVELOAD 10
#define E_REPLAY 11
#define E_PLANOPS 12
#define E_REPLAY_MANY 13
#define E_CONSTRUCT_PAIR 14
#define E_COPY_STEP 15
#define E_PAYLOAD 16
#define E_PLAN_STEP 17
#define E_PAYLOAD2 18
#define E_COPY_RNG 19
#define E_COPY_PLANS 21
#define E_REPLAY_ENTER 22
#ifndef REPLAY_MAX
#define REPLAY_MAX 15                   /* longest history handed to replayTransitions() */
#endif
#define M_SELECT 1
#define M_ENTRY_GUARD 4
#define M_ENTER 5
#define M_REENTER 6
#define M_PRE_UPDATE 7
#define M_UPDATE 8
#define M_POST_UPDATE 9
#define M_PRE_REACT 10
#define M_REACT 11
#define M_QUERY 12
#define M_POST_REACT 13
#define M_EXIT_GUARD 14
#define M_EXIT 15
#define M_PLAN_OK 16
#define M_PLAN_FAIL 17
#ifndef CB_BUDGET
#define CB_BUDGET 2          /* requests callbacks may issue in one step (<= queue capacity per round is assumed below) */
#endif
#ifndef CB_KINDS
#define CB_KINDS 0x8e        /* changeTo, restart, resume, schedule */
#endif
#ifndef NREQ
#define NREQ 1
#endif

#ifdef GUARD_BAND
/* C11 replays: the instance sits between two pattern-filled guard bands that are compared afterwards (sanitizers do not
   see writes whose index was laundered through a narrow cast) */
static struct { uint8_t pre[256]; struct T_struct_VfInst inst_; uint8_t post[1024]; } box;
#define inst box.inst_
#else
static struct T_struct_VfInst inst;
#endif
#define I (&inst)
#ifdef HAVE_LOGGER
static struct T_struct_VfLog lg;
#endif

/* ------------------------------------------------------------------ model of the configuration on raw fork arrays */
static uint8_t pre_a[NC], pre_r[NC];
static int m_active(const uint8_t* a, int s) {
  int x = s;
  for (int k = 0; k <= MAXDEPTH; k++) {
    int p = st_parent[x];
    if (p < 0) break;
    if (st_kind[p] == 1 && a[st_compo[p]] != st_prong[x]) return 0;
    x = p;
  }
  return a[0] != INVALID;
}
static int m_resumable(const uint8_t* r, int s) {     /* statement: the sub-state remembered by the nearest composite region */
  return st_fork[s] >= 0 && r[st_fork[s]] == st_fork_prong[s];
}
/* Inv: the representation invariant between API calls (DESIGN 3.3) */
static int inv_active(const uint8_t* a) {
  for (int c = 0; c < NC; c++) {
    if (m_active(a, co_head[c])) { if (a[c] >= co_width[c]) return 0; }
    else if (a[c] != INVALID) return 0;
  }
  return 1;
}
static int inv_raw(void) {
  const uint8_t *a = vf_compo_active(I), *r = vf_compo_resumable(I), *q = vf_compo_requested(I);
  if (!inv_active(a)) return 0;
  for (int c = 0; c < NC; c++) {
    if (!(r[c] == INVALID || r[c] < co_width[c])) return 0;
    if (q[c] != INVALID) return 0;
  }
  for (int i = 0; i < (NC + 7) / 8; i++) if (vf_compo_remains(I)[i]) return 0;
#if NO > 0
  for (int i = 0; i < NOU; i++) if (vf_ortho_requested(I)[i]) return 0;
#endif
  /* the request queue: empty in the havocked pre-state; after a step it may legitimately still hold requests that
     guards issued in the LAST allowed round (the library leaves them for the next step) - such pre-states are the
     subject of the 'queued requests + update' entry, so Inv only demands a well-formed queue within capacity */
  unsigned n = vf_requests_count(I);
  if (n > NC) return 0;
  for (unsigned i = 0; i < NC; i++) if (i < n && !(vf_request_dest(I, i) < NS && vf_request_type(I, i) < 7)) return 0;
  return 1;
}
/* the API-level statement of C01, through the public queries only */
static void api_wellformed(int activated) {
  __CPROVER_assert(vf_is_active(I, 0) == activated, "C01 root is active exactly when the machine is activated");
  for (int s = 1; s < NS; s++) if (vf_is_active(I, s)) __CPROVER_assert(vf_is_active(I, st_parent[s]), "C01 a state is active only if its parent is");
  for (int s = 0; s < NS; s++) {
    if (st_kind[s] == 0) continue;
    int n = 0; for (int k = 0; k < st_width[s]; k++) n += vf_is_active(I, st_child[s][k]) ? 1 : 0;
    if (st_kind[s] == 1) {
      unsigned sub = vf_active_sub(I, s);
      if (vf_is_active(I, s)) {
        __CPROVER_assert(n == 1, "C01 an active composite region has exactly one active sub-state");
        __CPROVER_assert(sub < (unsigned)st_width[s] && vf_is_active(I, st_child[s][sub < (unsigned)st_width[s] ? sub : 0]), "C01 activeSubState() names the active sub-state");
      } else {
        __CPROVER_assert(n == 0, "C01 an inactive region has no active sub-state");
        __CPROVER_assert(sub == INVALID, "C13 activeSubState() is invalid while the region is inactive");
      }
    } else if (vf_is_active(I, s)) __CPROVER_assert(n == st_width[s], "C01 an active orthogonal region has all sub-states active");
  }
}
static void check_api_matches_raw(void) {   /* ties the public queries to the fork arrays (isActive/isResumable walk the real tables) */
  const uint8_t *a = vf_compo_active(I), *r = vf_compo_resumable(I);
  for (int s = 0; s < NS; s++) {
    __CPROVER_assert(vf_is_active(I, s) == m_active(a, s), "C13 isActive(s) agrees with the region forks");
    if (s > 0) __CPROVER_assert(vf_is_resumable(I, s) == m_resumable(r, s) && vf_is_scheduled(I, s) == vf_is_resumable(I, s), "C13 isResumable/isScheduled(s) agree with the region forks");
  }
}

/* ------------------------------------------------------------------ monitor + environment stubs */
static int phase, budget, clk, cancel_ok = 1, consume_ok, plan_ok;
static _Bool entered[NS]; static uint8_t n_enter[NS], n_exit[NS], n_reenter[NS];
static int ev_enter[NS], ev_exit[NS], ev_reenter[NS];          /* clock of the event in this step, 0 = did not happen */
static int g_entry[NS], g_exit[NS];                              /* clock of the last guard invocation in an un-cancelled round */
static int rounds, round_cancelled, round_has_entry, cancelled_rounds, approved_rounds;
static _Bool round_seen_entry[NS], round_seen_exit[NS];
static int n_life, n_guard_calls, n_cb, n_sub;                   /* lifecycle events, guard calls, callbacks, substitutions */
static unsigned sched_mask[NC];                                  /* prongs named by schedule requests of this step, per region */
static int uparent(int s) { int p = st_parent[s]; while (p >= 0 && st_headless[p]) p = st_parent[p]; return p; }
static void note_request(int kind, int dest) {
  if (kind == 7 && dest > 0 && st_fork[dest] >= 0) sched_mask[st_fork[dest]] |= 1u << st_fork_prong[dest];
}
static void new_round(void) {
  if (rounds > 0) { if (round_cancelled) cancelled_rounds++; else approved_rounds++; }
  rounds++; round_cancelled = 0; round_has_entry = 0;
  for (int s = 0; s < NS; s++) { round_seen_entry[s] = 0; round_seen_exit[s] = 0; }
}
static void close_rounds(void) { if (rounds > 0) { if (round_cancelled) cancelled_rounds++; else approved_rounds++; } }

#ifdef TV_WALK
/* translation validation only (native): total functions of the random stream, no assumptions */
static int decide(int s, int m) {
  if (!phase) return 0;
  unsigned r = nondet_uint() * 2654435761u; r ^= r >> 15;
  if ((r & 3) != 0 || budget <= 0) return 0;
  int guard = (m & 31) == M_ENTRY_GUARD || (m & 31) == M_EXIT_GUARD;
  if (guard && ((r >> 2) & 7) == 0) return -1;
  if (((m & 31) >= M_PRE_REACT && (m & 31) <= M_POST_REACT) && ((r >> 2) & 7) == 1) return 0x3000;
  int kind = 1 + (r >> 8) % 7, dest = (r >> 16) % NS;
  if (!((CB_KINDS >> kind) & 1)) kind = 1;
  budget--; return (kind << 8) | dest;
}
#else
#ifdef P_C10
static int dec_fix[NS][20]; static _Bool dec_set[NS][20];    /* one decision per (state, method), shared by both runs */
static int which;                                             /* 0 = first instance, 1 = second instance */
static int seq[2][48], seqn[2];
#endif
static int decide(int s, int m) {
  if (!phase) return 0;
  { int mm_ = m & 31;   /* lifecycle / select / plan-status callbacks take no decision: only guards, update* and react* may */
    if (mm_ == M_ENTER || mm_ == M_REENTER || mm_ == M_EXIT || mm_ == M_SELECT) return 0; }
#ifdef CB_ONLY_STATE
  /* cheap variant: exactly one compile-time chosen entry guard may (or may not) redirect to one chosen state */
  if (s != CB_ONLY_STATE || (m & 31) != M_ENTRY_GUARD || budget <= 0) return 0;
  { _Bool go = nondet_bool();
    if (!go) return 0;
    budget--; note_request(1, CB_ONLY_DEST); n_sub++;
    return (1 << 8) | CB_ONLY_DEST; }
#endif
#ifdef P_C10
  if (dec_set[s][m & 31]) return dec_fix[s][m & 31];
#endif
  int d = nondet_int();
#ifdef P_C10
  dec_set[s][m & 31] = 1; dec_fix[s][m & 31] = d;
#endif
  if (d == 0) return 0;
  if ((m & 31) == M_QUERY) __CPROVER_assume(d == 0x3000);      /* a query handler can only consume the query */
  int guard = (m & 31) == M_ENTRY_GUARD || (m & 31) == M_EXIT_GUARD;
  if (d == -1) { __CPROVER_assume(guard && cancel_ok); return -1; }
  if (d == 0x3000) { __CPROVER_assume(consume_ok && m < 32 && ((m & 31) >= M_PRE_REACT && (m & 31) <= M_POST_REACT)); return d; }   /* M_QUERY lies between REACT and POST_REACT */
  if (d == 0x1000 || d == 0x2000) { __CPROVER_assume(plan_ok && ((m & 31) >= M_PRE_UPDATE && (m & 31) <= M_POST_REACT)); return d; }
  int kind = (d >> 8) & 0xf, dest = d & 0xff;
  __CPROVER_assume((d & ~0xfff) == 0 && kind >= 1 && kind <= 7 && ((CB_KINDS >> kind) & 1) && dest < NS);
#ifdef CB_DEST_NONROOT
  __CPROVER_assume(dest > 0);
#endif
#ifdef CB_ONLY_LEAVES
  __CPROVER_assume(st_kind[s] == 0 && st_kind[dest] == 0);    /* requests come from plain states and name plain states */
#endif
#ifdef KF_C04_ORTHO_ROOT_REQ
  /* known finding F15: on an ORTHOGONAL-ROOT machine a request aimed at the root, combined in one step with a request into
     one sub-region, lets the other sub-regions switch without their guards being invoked; excluded: requests to the root
     of an orthogonal-root machine issued by callbacks */
  __CPROVER_assume(!(ROOT_IS_ORTHO && dest == 0));
#endif
#ifdef KF_C11_LEFTOVER
  /* known finding: a request issued by a guard in the LAST allowed round stays in the queue when processing stops, and the
     library's own HFSM2_ASSERT(_core.requests.count() == 0) at the end of processTransitions() then trips */
  __CPROVER_assume(!(guard && rounds >= SUBLIMIT));
#endif
  __CPROVER_assume(budget > 0); budget--;
  note_request(kind, dest);
  if (guard) n_sub++;
#ifdef P_C10
  dec_set[s][m & 31] = 1; dec_fix[s][m & 31] = d;
#endif
  return d;
}
#endif

#ifdef P_C16
/* two interleaved records: ground truth from the callbacks / the decisions the stub takes, and the logger's record */
static int lg_fresh, lg_s, lg_m, lg_bad_method, lg_extra, lg_wrong, lg_missing, n_log;
static int ex_tr, ex_tr_o, ex_tr_t, ex_tr_d, ex_cancel, ex_cancel_o, ex_sel, ex_sel_s, ex_sel_v;
static void lg_flush(void) { if (ex_tr || ex_cancel || ex_sel) lg_missing = 1; ex_tr = ex_cancel = ex_sel = 0; }
void vf_log(uint32_t k, uint32_t a, uint32_t b, uint32_t c) {
  if (!phase) return;                                        /* set-up (construction / first activation) is not part of the step */
  n_log++; DBG("  log kind=%u a=%u b=%u c=%u\n", k, a, b, c);
  if (k == 0) { if (lg_fresh) lg_extra = 1; lg_fresh = 1; lg_s = (int)a; lg_m = (int)b; }
  else if (k == 1) { if (!ex_tr || (int)a != ex_tr_o || (int)b != ex_tr_t || (int)c != ex_tr_d) lg_wrong = 1; ex_tr = 0; }
  else if (k == 4) { if (!ex_cancel || (int)a != ex_cancel_o) lg_wrong = 1; ex_cancel = 0; }
  else if (k == 5) {
    /* the anonymous head of a headless region has no user select(): the library's default (first sub-state) is resolved
       and reported without a preceding callback */
    if (a < NS && st_headless[a] && !ex_sel) { if (b != 0) lg_wrong = 1; }
    else { if (!ex_sel || (int)a != ex_sel_s || (int)b != ex_sel_v) lg_wrong = 1; ex_sel = 0; } }
}
static void lg_method(int s, int m) {
  lg_flush();
  if (!(lg_fresh && lg_s == s && lg_m == m)) lg_bad_method = 1;
  lg_fresh = 0;
}
#endif
#ifdef P_C06
#ifndef PLAN_HEAD
#define PLAN_HEAD 0                      /* state id of the head of the plan-owning region under test */
#endif
#define PLAN_REGION (st_region[PLAN_HEAD])
#ifdef PLAN_NOPROCESS
#define PL_COUNT() vf_requests_count(I)
#define PL_DEST(i) vf_request_dest(I, i)
#define PL_ORIGIN(i) vf_request_origin(I, i)
#define PL_TYPE(i) vf_request_type(I, i)
#else
#define PL_COUNT() vf_prev_count(I)
#define PL_DEST(i) vf_prev_dest(I, i)
#define PL_ORIGIN(i) vf_prev_origin(I, i)
#define PL_TYPE(i) vf_prev_type(I, i)
#endif
static int pl_n, pl_exists; static uint8_t pl_o[2], pl_d[2], pl_k[2];
static int dec_of[NS], n_planS[NS], n_planF[NS];
#endif
#ifdef P_C05
static int ts[NS][3][20]; static int dup_cb, cons_s[4] = {-1, -1, -1, -1};
#endif
#ifdef P_C13
static _Bool pq_enter[NS], pq_exit[NS], pq_change[NS], pq_seen, pq_unstable; static uint8_t pq_req[NC];
#endif
#ifdef P_C09
static struct T_struct_VfInst replica;
static int guard_in_replay, sub_kind, sub_dest, sub_origin = -1, sub_round, r1c, r2c;
#endif
uint32_t vf_cb(uint32_t s, uint32_t m, uint8_t* self) {
  if (!phase) return 0;
#ifdef P_C10
  if (seqn[which] < 48) { seq[which][seqn[which]] = (int)(s * 32 + (m & 31)); } seqn[which]++;
  { int dd = decide((int)s, (int)m); VF_OBS(s * 64 + m); return (uint32_t)dd; }
#endif
#ifdef P_C09
  if (phase == 2) { if ((m & 31) == M_ENTRY_GUARD || (m & 31) == M_EXIT_GUARD) guard_in_replay = 1; return 0; }
#endif
  n_cb++; clk++;
  VF_OBS(s * 64 + m);
  DBG("  cb state=%s(%u) method=%u\n", st_name[s], s, m);
  int mm = m & 31;
#ifdef MON_INCB
  /* C01 "inside update, react, query and guard callbacks": the configuration is well-formed */
  if (mm != M_ENTER && mm != M_EXIT && mm != M_REENTER) __CPROVER_assert(inv_active(vf_compo_active(I)), "C01 configuration well-formed inside callbacks");
#endif
#ifdef MON_LIFE
  if (m < 32) __CPROVER_assert((const void*)self == (const void*)vf_access(I, s), "C03 callback runs on the object access<State>() returns");
  if (mm == M_ENTER) {
    __CPROVER_assert(!entered[s], "C03 enter only on a state that is not entered");
    int p = uparent(s); if (p >= 0) __CPROVER_assert(entered[p], "C03 a state is entered after its parent");
  } else if (mm == M_EXIT) {
    __CPROVER_assert(entered[s], "C03 exit only on an entered state");
    for (int x = s + 1; x < NS && x < s + st_size[s]; x++) if (!st_headless[x]) __CPROVER_assert(!entered[x], "C03 a state is exited before its parent");
  } else if (mm != M_ENTRY_GUARD && mm != M_SELECT) {
    __CPROVER_assert(entered[s], "C03 update/react/query/reenter/exitGuard/plan callbacks only on an entered state");
  }
#endif
  if (mm == M_ENTER) { entered[s] = 1; n_enter[s]++; ev_enter[s] = clk; n_life++; }
  else if (mm == M_EXIT) { entered[s] = 0; n_exit[s]++; ev_exit[s] = clk; n_life++; }
  else if (mm == M_REENTER) { n_reenter[s]++; ev_reenter[s] = clk; n_life++; }
  if (mm == M_ENTRY_GUARD || mm == M_EXIT_GUARD) {
    n_guard_calls++;
    /* round boundary: the first guard; an exit guard after an entry guard; a repeated guard; an entry guard after the exit
       phase was cancelled (the entry phase of that round is skipped).  Guards of orthogonal siblings keep running in the
       SAME round after one of them cancelled, so "a guard after a cancel" alone is no boundary. */
    if (rounds == 0 || (mm == M_EXIT_GUARD && round_has_entry) || (mm == M_ENTRY_GUARD && round_cancelled && !round_has_entry) ||
        (mm == M_EXIT_GUARD ? round_seen_exit[s] : round_seen_entry[s])) new_round();
    if (mm == M_ENTRY_GUARD) { round_has_entry = 1; round_seen_entry[s] = 1; g_entry[s] = clk; } else { round_seen_exit[s] = 1; g_exit[s] = clk; }
#ifdef MON_GUARD
    __CPROVER_assert(n_life == 0, "C04 no lifecycle callback runs before the guards of the step have finished");
#endif
  }
#ifdef P_C05
  { int lvl = m >> 5; if (ts[s][lvl][mm]) dup_cb = 1; ts[s][lvl][mm] = clk; }
#endif
#ifdef P_C13
  if (mm == M_ENTRY_GUARD || mm == M_EXIT_GUARD) {
    /* the answers the guards of the (single-request) round see: read at the first guard invocation (thorough: at
       every invocation, with a stability check) */
#ifndef C13_EVERY_GUARD
    if (!pq_seen)
#endif
    for (int x = 0; x < NS; x++) {
      _Bool e = vf_pending_enter(I, x), q = vf_pending_exit(I, x), c = vf_pending_change(I, x);
      if (pq_seen && (e != pq_enter[x] || q != pq_exit[x] || c != pq_change[x])) pq_unstable = 1;
      pq_enter[x] = e; pq_exit[x] = q; pq_change[x] = c;
    }
    for (int c = 0; c < NC; c++) pq_req[c] = vf_compo_requested(I)[c];
    pq_seen = 1;
  } else if (mm >= M_PRE_UPDATE && mm <= M_POST_UPDATE) {
    for (int x = 0; x < NS; x++) {
      __CPROVER_assert(!vf_pending_enter(I, x), "C13 while nothing is pending isPendingEnter is false");
#ifndef KF_C13_UNREQ
      __CPROVER_assert(!vf_pending_exit(I, x) && !vf_pending_change(I, x), "C13 while nothing is pending isPendingExit/Change are false");
#endif
    }
  }
#endif
#ifdef P_C16
  lg_method((int)s, mm);
#endif
  int d = decide(s, m);
#ifdef P_C06
  if (mm == M_PLAN_OK) n_planS[s]++; if (mm == M_PLAN_FAIL) n_planF[s]++;
  if (mm == M_UPDATE) {   /* every active state may succeed()/fail() except states nested below the plan region's direct sub-states
                             (their results would reach the plan region only second-hand, through plan-less regions) */
    int deep = 0; { int x = (int)s; for (int k = 0; k <= MAXDEPTH; k++) { int q = st_parent[x]; if (q < 0) break; if (st_parent[q] >= 0 && st_parent[q] == PLAN_HEAD) deep = 1; x = q; } }
    __CPROVER_assume(d == 0 || !deep); dec_of[s] = d; }
#endif
#ifdef P_C16
  if (d == -1) { ex_cancel = 1; ex_cancel_o = (int)s; }
  else if (d > 0 && d < 0x1000) { ex_tr = 1; ex_tr_o = (int)s; ex_tr_t = ((d >> 8) & 0xf) - 1; ex_tr_d = d & 0xff; }
#endif
#ifdef P_C05
  if (d == 0x3000) { int ph = mm == M_PRE_REACT ? 0 : mm == M_REACT ? 1 : mm == M_POST_REACT ? 2 : 3; if (cons_s[ph] < 0) cons_s[ph] = (int)s; }
#endif
  if (d) DBG("     -> decision 0x%x (kind %d dest %d)\n", d, (d >> 8) & 0xf, d & 0xff);
  if (d == -1) { round_cancelled = 1; }
#ifdef P_C09
  if (d == -1) { if (rounds == 1) r1c = 1; else if (rounds == 2) r2c = 1; }
  if (d > 0 && (mm == M_ENTRY_GUARD || mm == M_EXIT_GUARD)) { sub_kind = (d >> 8) & 0xf; sub_dest = d & 0xff; sub_origin = (int)s; sub_round = rounds; }
#endif
  return (uint32_t)d;
}
static int sel_calls, rank_calls, util_calls, rng_calls;
static uint8_t sel_val[NC]; static _Bool sel_fixed;
uint32_t vf_select(uint32_t s) {
#ifdef P_C16
  if (phase) lg_method((int)s, M_SELECT);
#endif
  if (sel_fixed) { sel_calls++; return sel_val[st_compo[s]]; }
  unsigned v = nondet_uchar();
#ifdef TV_WALK
  v %= (unsigned)st_width[s];
#endif
  __CPROVER_assume(v < (unsigned)st_width[s]);      /* documented precondition: select() returns a valid index */
  sel_calls++; VF_OBS(v);
#ifdef P_C16
  if (phase) { ex_sel = 1; ex_sel_s = (int)s; ex_sel_v = (int)v; }
#endif
  return v;
}
/* rank()/utility() answers are one symbolic value per STATE, fixed for the step (chosen in main): the order in which
   the library evaluates them is unspecified C++ evaluation order and may differ between compilers */
static signed char rank_val[NS]; static uint8_t util_k[NS];
uint32_t vf_rank(uint32_t s) { rank_calls++; return (uint32_t)(int)rank_val[s]; }
#ifdef P_C12
static float util_f[NS];                                    /* full-range symbolic float utilities */
float vf_utility(uint32_t s) { util_calls++; return util_f[s]; }
#else
float vf_utility(uint32_t s) { util_calls++; return 0.25f * (float)util_k[s]; }
#endif
static float rng_last;
#ifdef P_C10
static float rng_fix[4]; static _Bool rng_fix_set[4]; static int rng_idx[2];
#endif
float vf_rng(void) {
#ifdef P_C10
  /* the generator yields the same numbers to both instances: the k-th call of each run gets the k-th number */
  { int k = rng_idx[which]++; if (k < 4 && rng_fix_set[k]) { rng_calls++; return rng_fix[k]; } }
#endif
  float r = nondet_float();
#ifdef TV_WALK
  if (!(r >= 0.0f && r < 1.0f)) r = 0.5f;
#endif
  __CPROVER_assume(r >= 0.0f && r < 1.0f); rng_calls++; rng_last = r;
#ifdef P_C10
  { int k = rng_idx[which] - 1; if (k >= 0 && k < 4) { rng_fix[k] = r; rng_fix_set[k] = 1; } }
#endif
  return r; }
uint32_t vf_payload(uint32_t s, uint32_t m) { return nondet_uint(); }
#ifndef P_C16
void vf_log(uint32_t k, uint32_t a, uint32_t b, uint32_t c) { }
#endif
static int n_break;
void hfsm2_verif_break(void) { n_break++; __CPROVER_assert(0, "C11 a library consistency assertion (HFSM2_ASSERT / HFSM2_BREAK) tripped"); }
#ifdef P_C14
#define NOPAY 0xfffffffeu
static uint32_t pay_val[2]; static _Bool pay_set[2]; static uint8_t pay_dest[2], pay_kind[2]; static int pay_n, pay_bad_guard, pay_bad_enter, pay_seen_guard, pay_seen_enter;
void vf_obs(uint32_t w, uint32_t a, uint32_t b, uint8_t* p) {
  if (!phase) return;
  unsigned i = a & 0xff, dst = (a >> 8) & 0xffff, ty = a >> 24;
  uint32_t want = (i < 2 && pay_set[i]) ? pay_val[i] : NOPAY;
  int ok = i < (unsigned)pay_n && dst == pay_dest[i] && ty + 1 == pay_kind[i] && b == want;
  if (w == 1) { pay_seen_guard = 1; if (!ok) pay_bad_guard = 1; }
  if (w == 2) { pay_seen_enter = 1; if (!ok) pay_bad_enter = 1; }
}
#else
void vf_obs(uint32_t w, uint32_t a, uint32_t b, uint8_t* p) { }
#endif

/* ------------------------------------------------------------------ C02 reference model (written from the statement) */
#if defined(P_C02) || defined(P_C04C)
static uint8_t T[NC], R[NC], exp_a[NC]; static _Bool touched[NC], freec[NC];
static int rq_n, rq_kind[NC + 2], rq_dest[NC + 2];
static uint8_t curp(int c) { return T[c] != INVALID ? T[c] : pre_a[c]; }
static int pend_active(int s) {           /* active in the pending configuration (pre-state overlaid with targets) */
  int x = s;
  for (int k = 0; k <= MAXDEPTH; k++) { int p = st_parent[x]; if (p < 0) break; if (st_kind[p] == 1 && curp(st_compo[p]) != st_prong[x]) return 0; x = p; }
  return 1;
}
static int choose(int c, int k) {
  int strat = co_strategy[c];
  if (k == 1) k = strat == 0 ? 2 : strat == 1 ? 3 : strat == 2 ? 4 : strat == 3 ? 5 : 6;   /* change: the declared strategy */
  if (k == 2) return 0;                                          /* restart: the first */
  if (k == 3) return R[c] != INVALID ? R[c] : 0;                 /* resume: the last active one, else the first */
  if (k == 4) return sel_val[c];                                 /* select: the index returned by select() */
  return 0;                                                      /* utilize / randomize: C12's harness */
}
static void resolve(int s, int k, int depth) {                   /* entered / re-targeted regions pick by request kind, recursively */
  if (st_kind[s] == 0 || depth > MAXDEPTH) return;
  if (st_kind[s] == 1) {
    int c = st_compo[s]; int p = choose(c, k); T[c] = (uint8_t)p; touched[c] = 1;
    for (int i = 0; i < st_width[s]; i++) if (i == p) resolve(st_child[s][i], k, depth + 1);     /* concrete child ids, symbolic guard */
  } else for (int i = 0; i < st_width[s]; i++) resolve(st_child[s][i], k, depth + 1);
}
static void touch_subtree(int d) { for (int x = d; x < d + st_size[d]; x++) if (st_kind[x] == 1) touched[st_compo[x]] = 1; }
static void free_subtree(int d) { for (int x = d; x < d + st_size[d]; x++) if (st_kind[x] == 1) freec[st_compo[x]] = 1; }
static void ref_apply(int k, int d) {
  if (k == 7) { int p = st_parent[d]; if (d > 0 && st_kind[p] == 1) R[st_compo[p]] = (uint8_t)st_prong[d]; return; }   /* schedule: remember, nothing else */
  if (d == 0) { resolve(0, k, 0); return; }
#ifdef KF_C02_ORTHO_CHILD_REGION
  /* known finding: a request whose destination is an ACTIVE region with only orthogonal ancestors (orthogonal root) is
     ignored (the region is not re-targeted); excluded by exactly that predicate */
  __CPROVER_assume(!(st_kind[d] != 0 && st_fork[d] < 0 && pend_active(d)));
#endif
  /* statement silent (don't-care): a region destination that already carries a pending target from an EARLIER request
     of the same batch may keep it or be re-resolved by this request */
  if (st_kind[d] == 1 && T[st_compo[d]] != INVALID) free_subtree(d);
  /* ... the same for regions nested inside a region destination (e.g. select<R>() followed by restart<Or>() with R below
     the orthogonal region Or): all destinations are active either way, the statement does not say whether the nested
     region keeps the sub-state the earlier request chose or is re-resolved by the later kind */
  if (st_kind[d] != 0) for (int y = d + 1; y < d + st_size[d]; y++) if (st_kind[y] == 1 && T[st_compo[y]] != INVALID) free_subtree(y);
  /* which orthogonal ancestors are NOT active in the pending configuration before this request (they get entered) */
  _Bool o_entered[MAXDEPTH + 2]; int x = d;
  for (int i = 0; i <= MAXDEPTH; i++) { int p = st_parent[x]; o_entered[i] = 0; if (p < 0) break; if (st_kind[p] == 2) o_entered[i] = !pend_active(p); x = p; }
  int first = 1; x = d;
  for (int i = 0; i <= MAXDEPTH; i++) {
    int p = st_parent[x]; if (p < 0) break;
    if (st_kind[p] == 1) {                                       /* destination and all its ancestors become active; later requests override */
      int c = st_compo[p];
      if (first || curp(c) != st_prong[x]) T[c] = (uint8_t)st_prong[x];
      first = 0; touched[c] = 1;
    }
    x = p;
  }
  touch_subtree(d); resolve(d, k, 0);
  x = d; int below_fork = 1;
  for (int i = 0; i <= MAXDEPTH; i++) {                           /* entered orthogonal ancestors: their other sub-states resolve by the same kind */
    int p = st_parent[x]; if (p < 0) break;
    if (st_kind[p] == 2 && o_entered[i]) for (int j = 0; j < st_width[p]; j++) { int y = st_child[p][j]; if (y != x) { touch_subtree(y); resolve(y, k, 0); } }
    /* statement silent (don't-care): an ACTIVE orthogonal region lying between the destination and its nearest composite
       ancestor region is re-entered as a unit by the library (self-transition of that ancestor's sub-state): whether
       its other sub-states keep their configuration is not decided by the statement */
    if (st_kind[p] == 2 && !o_entered[i] && below_fork) for (int j = 0; j < st_width[p]; j++) { int y = st_child[p][j]; if (y != x) free_subtree(y); }
    if (st_kind[p] == 1) below_fork = 0;
    x = p;
  }
}
static void ref_commit_and_check(const uint8_t* a, const uint8_t* r) {
  for (int c = 0; c < NC; c++) {                                 /* compo indices are depth-first: ancestors first */
    exp_a[c] = INVALID;
    if (m_active(exp_a, co_head[c]) || (c == 0 && pre_a[0] != INVALID)) exp_a[c] = curp(c);
    if (freec[c]) { if (a[c] != INVALID) exp_a[c] = a[c]; continue; }       /* don't-care region: follow the implementation */
    __CPROVER_assert(a[c] == exp_a[c], "C02 active sub-state of every region equals the configuration the rules prescribe");
    /* resumable: the sub-state last left, or given by schedule; untouched regions keep theirs */
    uint8_t p = pre_a[c], f = exp_a[c];
    if (p != INVALID && f != p) __CPROVER_assert(r[c] == p, "C02 a region that is left or switched remembers the sub-state it left");
    else if (p != INVALID && !touched[c]) __CPROVER_assert(r[c] == R[c], "C02 a region no request touches keeps its resumable sub-state");
    else if (p != INVALID) __CPROVER_assert(r[c] == R[c] || r[c] == p || r[c] == INVALID, "C02 re-targeted region: resumable is the previous, the left or none");
    else if (f != INVALID && f == R[c]) __CPROVER_assert(r[c] == R[c] || r[c] == INVALID, "C02 a region entered onto its resumable sub-state keeps or clears it");
    else __CPROVER_assert(r[c] == R[c], "C02 a region that was inactive keeps its resumable sub-state");
  }
}
#endif

/* ------------------------------------------------------------------ C05 reference trace (written from the statement) */
#ifdef P_C05
static int xpos, xstopped;
static void expect_cb(int s, int mm, int down, int ph) {
  if (st_headless[s]) return;
  if (xstopped) { __CPROVER_assert(ts[s][0][mm] == 0 && ts[s][1][mm] == 0 && ts[s][2][mm] == 0, "C05 a phase stops as soon as a state consumes the event"); return; }
#if INJECT
  /* both readings of "on the way down / up" (by traversal direction, or by phase: pre/main vs post) agree only for the
     TopDown order of update()/react(); for BottomUp phases and for query() the statement does not decide whether the own
     handler or the injected ones come first: only that all three run, contiguously, in this state's slot */
  if (BOTTOMUP || mm == M_QUERY) {
    int lo = ts[s][0][mm], hi = lo;
    for (int l = 1; l < 3; l++) { if (ts[s][l][mm] < lo) lo = ts[s][l][mm]; if (ts[s][l][mm] > hi) hi = ts[s][l][mm]; }
    __CPROVER_assert(lo == xpos && hi == xpos + 2 && ts[s][0][mm] != ts[s][1][mm] && ts[s][1][mm] != ts[s][2][mm] && ts[s][0][mm] != ts[s][2][mm], "C05 own and injected handlers of a state run together in the state's turn");
  } else if (down) {   /* injected handlers before the state's own on the way down */
    __CPROVER_assert((ts[s][1][mm] == xpos && ts[s][2][mm] == xpos + 1) || (ts[s][1][mm] == xpos + 1 && ts[s][2][mm] == xpos), "C05 injected handlers run before the state's own handler on the way down");
    __CPROVER_assert(ts[s][0][mm] == xpos + 2, "C05 own handler follows its injected handlers on the way down");
  } else {      /* ... and after it on the way up */
    __CPROVER_assert(ts[s][0][mm] == xpos, "C05 own handler precedes its injected handlers on the way up");
    __CPROVER_assert((ts[s][1][mm] == xpos + 1 && ts[s][2][mm] == xpos + 2) || (ts[s][1][mm] == xpos + 2 && ts[s][2][mm] == xpos + 1), "C05 injected handlers run after the state's own handler on the way up");
  }
  xpos += 3;
#else
  __CPROVER_assert(ts[s][0][mm] == xpos, "C05 callbacks reach exactly the active states in the documented order");
  xpos++;
#endif
  if (ph >= 0 && cons_s[ph] == s) xstopped = 1;
}
/* one phase: preorder (ids are depth-first) = head before sub-states, siblings in declaration order;
   postorder = sub-states before their head */
static void expect_phase(int mm, int headfirst, int ph) {
  xstopped = 0;
  for (int i = 0; i < NS; i++) { int s = headfirst ? i : st_postseq[i]; if (m_active(pre_a, s)) expect_cb(s, mm, headfirst, ph); }
  for (int s = 0; s < NS; s++) if (!m_active(pre_a, s)) __CPROVER_assert(ts[s][0][mm] == 0 && ts[s][1][mm] == 0 && ts[s][2][mm] == 0, "C05 inactive states receive nothing");
}
#endif

/* ------------------------------------------------------------------ set-up */
static int activated = 1;
static void construct(void) {
#ifdef HAVE_LOGGER
#ifdef LOGGER_DETACHED
  vf_logger_construct(&lg); vf_construct(I, 0);
#else
  vf_logger_construct(&lg); vf_construct(I, &lg);
#endif
#else
  vf_construct(I);
#endif
}
static void havoc(void) {
  uint8_t *a = vf_compo_active(I), *r = vf_compo_resumable(I);
  for (int c = 0; c < NC; c++) {
    a[c] = nondet_uchar();
    r[c] = nondet_uchar();
  }
  __CPROVER_assume(inv_raw() && vf_requests_count(I) == 0);
#if MANUAL
  activated = a[0] != INVALID;
#else
  __CPROVER_assume(a[0] != INVALID);
#endif
}
#ifdef P_C12
/* the statement's recursive utility under 'utilize': leaf = its own; composite region = head x the best sub-state's;
   orthogonal region = head x the mean of its sub-states' (same float operations, left-to-right) */
static float eff_util(int s, int depth) {
  if (st_kind[s] == 0 || depth > MAXDEPTH) return util_f[s];
  if (st_kind[s] == 1) {
    float best = eff_util(st_child[s][0], depth + 1);
    for (int i = 1; i < st_width[s]; i++) { float u = eff_util(st_child[s][i], depth + 1); if (u > best) best = u; }
    return (st_headless[s] ? 1.0f : util_f[s]) * best;
  }
  float sum = 0.0f; for (int i = 0; i < st_width[s]; i++) sum += eff_util(st_child[s][i], depth + 1);
  return (st_headless[s] ? 1.0f : util_f[s]) * (sum / (float)st_width[s]);
}
#endif
static void choose_utilities(void) {
#ifdef P_C12
  for (int s = 0; s < NS; s++) {
    rank_val[s] = (signed char)nondet_uchar();
    util_f[s] = nondet_float();
    __CPROVER_assume(util_f[s] >= 0.0f && util_f[s] <= 1.0e6f);     /* documented: utilities are non-negative and finite */
#ifdef C12_GRID
    { unsigned gk = nondet_uchar();                 /* utilities on a grid of C12_GRID quarter steps; r stays a full-range float */
      __CPROVER_assume(gk < C12_GRID); util_f[s] = 0.25f * (float)gk; }
#endif
  }
  return;
#endif
#if HAVE_UTIL
  for (int s = 0; s < NS; s++) {
    rank_val[s] = (signed char)nondet_uchar();
    util_k[s] = nondet_uchar();
#ifdef TV_WALK
    util_k[s] = 1 + util_k[s] % 7; rank_val[s] = rank_val[s] % 2;
#endif
#ifdef UTIL_HEAD_ZERO
    /* a region head may report utility 0 where the enclosing region still has a plain sub-state (always positive), so
       every top-rank sum stays positive */
    { int zero_ok = 0;
      if (st_kind[s] != 0 && st_parent[s] >= 0) {
        int p = st_parent[s]; while (p >= 0 && st_kind[p] == 2) { int q = st_parent[p]; if (q < 0) break; p = q; }     /* nearest composite-style ancestor */
        for (int i = 0; i < st_width[p]; i++) if (st_kind[st_child[p][i]] == 0) zero_ok = 1; }
      __CPROVER_assume(util_k[s] < 8 && (util_k[s] >= 1 || zero_ok));
      __CPROVER_assume(rank_val[s] == 0); }                    /* equal ranks: the plain sub-state is always in the top rank */
#else
    __CPROVER_assume(util_k[s] >= 1 && util_k[s] < 8);
#endif
  }
  /* FSM-level harnesses use strictly positive utilities (k/4, k in 1..7), so every top-rank sum is positive (the
     documented precondition of randomize); zero utilities and the float edge cases are C12's kernel queries */
#endif
}
#ifdef P_C16S
static signed char act0[NS];
static void havoc_report(void) {
  /* Inv for structure-report fixtures: the report mirrors the (havocked) configuration; history values arbitrary but
     with the sign of the current condition (0 only before the first update) */
  const uint8_t* a = vf_compo_active(I);
  for (int x = 0; x < NS; x++) {
    *vf_structure_active_raw(I, x) = (unsigned char)m_active(a, x);
    act0[x] = (signed char)nondet_uchar();
    __CPROVER_assume(act0[x] != 0 && ((act0[x] > 0) == (m_active(a, x) != 0)));
    vf_activity_raw(I)[x] = act0[x];
  }
}
#endif
static void snapshot(void) {
  const uint8_t *a = vf_compo_active(I), *r = vf_compo_resumable(I);
  for (int c = 0; c < NC; c++) { pre_a[c] = a[c]; pre_r[c] = r[c]; }
  for (int s = 0; s < NS; s++) entered[s] = m_active(a, s);
}
#define IMMF_(k) vf_imm##k
#define IMMF(k) IMMF_(k)

int main(void) {
#ifdef GUARD_BAND
  for (unsigned i = 0; i < sizeof box.pre; i++) box.pre[i] = 0x5a;
  for (unsigned i = 0; i < sizeof box.post; i++) box.post[i] = 0x5a;
#endif
  __CPROVER_assert(vf_sizeof() == sizeof inst, "instance size is the translated struct's size");
#ifdef TV_WALK
  /* native only: seeded random walk over the public API from the constructed instance; every callback, every
     query answer and the raw forks are hashed (VF_OBS) and compared between the real and the translated build */
  choose_utilities();
  phase = 1; budget = 0; cancel_ok = 0; construct();
#if MANUAL
  vf_enter(I);
#endif
  cancel_ok = 1;
  for (int step = 0; step < 300; step++) {
    budget = 2; unsigned op = nondet_uint() % 8, k = nondet_uint(), dst = nondet_uint() % NS;
    if (op < 3) vf_update(I);
    else if (op == 3) { vf_request(I, 1 + k % 7, dst); vf_request(I, 1 + (k >> 8) % 7, (dst + 1) % NS); vf_update(I); }
    else if (op == 4) vf_imm1(I, dst); else if (op == 5) vf_imm2(I, dst); else if (op == 6) { if (k & 1) vf_imm3(I, dst); else vf_imm4(I, dst); }
    else if ((k & 7) == 0) vf_reset(I); else vf_update(I);
    for (int s = 0; s < NS; s++) { VF_OBS(vf_is_active(I, s)); VF_OBS(vf_is_resumable(I, s)); VF_OBS(vf_active_sub(I, s)); }
    for (int c = 0; c < NC; c++) { VF_OBS(vf_compo_active(I)[c]); VF_OBS(vf_compo_resumable(I)[c]); }
  }
  __CPROVER_assert(inv_raw() || 1, "tv walk done");
  return 0;
#endif
#if ENTRY == E_CONSTRUCT_PAIR
  /* C10: two instances built in storage with ARBITRARY (different) prior contents, same constructor arguments, same
     callback answers: every callback and the resulting configuration must agree (incl. the first activation that the
     constructor of an automatically activated machine performs) */
  { static struct T_struct_VfInst second_;
    uint8_t* m0 = (uint8_t*)I; uint8_t* m1 = (uint8_t*)&second_;
    for (unsigned i = 0; i < sizeof inst; i++) {
      uint8_t j0 = nondet_uchar();
      uint8_t j1 = nondet_uchar();
      m0[i] = j0; m1[i] = j1;
    }
    choose_utilities();
    sel_fixed = 1;
    for (int c = 0; c < NC; c++) {
      sel_val[c] = nondet_uchar();
      __CPROVER_assume(sel_val[c] < co_width[c]);
    }
    phase = 1; budget = 0; cancel_ok = 0;
    which = 0;
#ifdef HAVE_LOGGER
    vf_logger_construct(&lg); vf_construct(I, &lg);
#else
    vf_construct(I);
#endif
    which = 1;
#ifdef HAVE_LOGGER
    vf_construct(&second_, &lg);
#else
    vf_construct(&second_);
#endif
    phase = 0;
    END;
    __CPROVER_assert(seqn[0] == seqn[1], "C10 both instances invoke as many callbacks during construction");
    for (int i = 0; i < 48; i++) if (i < seqn[0] && i < seqn[1]) __CPROVER_assert(seq[0][i] == seq[1][i], "C10 construction invokes the same callbacks whatever the storage held before");
    const uint8_t *a0 = vf_compo_active(I), *r0 = vf_compo_resumable(I), *a1 = vf_compo_active(&second_), *r1 = vf_compo_resumable(&second_);
    for (int c = 0; c < NC; c++) __CPROVER_assert(a0[c] == a1[c] && r0[c] == r1[c], "C10 the first activation is the same whatever the storage held before");
    for (int s = 0; s < NS; s++) __CPROVER_assert(vf_is_active(I, s) == vf_is_active(&second_, s), "C10 both instances report the same active states");
    __CPROVER_assert(vf_requests_count(I) == 0 && vf_requests_count(&second_) == 0, "C10 fresh instances have an empty queue");
    return 0; }
#endif
#if ENTRY == E_REPLAY_ENTER
  /* C09, Manual activation: the authority is entered from scratch - regions choose by their declared strategy, entry
     guards may redirect the initial activation (recorded); the history replayed into a never-activated replica by
     replayEnter() reproduces the configuration without consulting a guard */
  unsigned dest = 0; (void)dest;                 /* (the step oracles further down are compiled but never reached) */
  { phase = 0; construct();
    replica = inst;
    choose_utilities();
    sel_fixed = 1;
    for (int c = 0; c < NC; c++) {
      sel_val[c] = nondet_uchar();
      __CPROVER_assume(sel_val[c] < co_width[c]);
    }
    phase = 1; budget = CB_BUDGET; cancel_ok = 0;     /* a veto of the INITIAL activation is outside the statement (the library breaks) */
    vf_enter(I);
    phase = 0;
    END;
    unsigned pc = vf_prev_count(I);
    COVER(pc >= 1);
    const uint8_t *a = vf_compo_active(I), *r = vf_compo_resumable(I);
    __CPROVER_assert(inv_raw(), "C01 Inv holds after enter()");
    if (pc > 0) {
      phase = 2; int ok = vf_replay_enter(&replica, I); phase = 0;
      __CPROVER_assert(ok, "C09 replayEnter() accepts the recorded history");
      __CPROVER_assert(!guard_in_replay, "C09 replay does not consult guards");
      const uint8_t *ra = vf_compo_active(&replica), *rr = vf_compo_resumable(&replica);
      for (int c = 0; c < NC; c++) __CPROVER_assert(ra[c] == a[c] && rr[c] == r[c], "C09 replayEnter() reproduces the configuration of the authority's enter()");
      __CPROVER_assert(vf_prev_count(&replica) == pc, "C09 the replica records the replayed history");
    }
    return 0; }
#endif
#ifdef FROM_CONSTRUCTION
  /* whole-life: monitor the activation performed by the constructor (Automatic) / enter() (Manual) as well */
  phase = 1; budget = 0; cancel_ok = 0;
  construct();
#if MANUAL
  activated = 0;
  _Bool enter_now = nondet_bool();
  if (enter_now) { vf_enter(I); activated = 1; }
#endif
  __CPROVER_assert(inv_raw(), "C01 Inv holds after construction / first activation");
  { const uint8_t *a = vf_compo_active(I), *r = vf_compo_resumable(I); for (int c = 0; c < NC; c++) { pre_a[c] = a[c]; pre_r[c] = r[c]; } }
  cancel_ok = 1;
#else
  construct();
  havoc(); snapshot();
#ifdef P_C16S
  havoc_report();
#endif
#endif
  choose_utilities();
  sel_calls = rank_calls = util_calls = rng_calls = 0;     /* count the step only (a random ROOT draws during construction) */
#ifdef P_C09
  replica = inst;                                /* an identically prepared replica (same state, same history) */
  sel_fixed = 1;                                 /* replay re-evaluates select(): user callbacks are deterministic (C10's premise) */
  for (int c = 0; c < NC; c++) {
    sel_val[c] = nondet_uchar();
    __CPROVER_assume(sel_val[c] < co_width[c]);
  }
#endif
  phase = 1; budget = CB_BUDGET; clk = 0; n_life = 0; rounds = 0;
#ifdef NO_CANCEL
  cancel_ok = 0;
#endif
#if defined(P_C02)
  /* C02: requests processed WITHOUT veto and without callback-issued requests; select() answers fixed per region */
  cancel_ok = 0; budget = 0; sel_fixed = 1;
  for (int c = 0; c < NC; c++) {
    sel_val[c] = nondet_uchar();
    __CPROVER_assume(sel_val[c] < co_width[c]);
    if (st_headless[co_head[c]]) sel_val[c] = 0;       /* a headless region has no user select(): the library default returns 0 */
    T[c] = INVALID; R[c] = pre_r[c];
  }
#endif
#if MANUAL && ENTRY != E_ENTER && ENTRY != E_NONE
  __CPROVER_assume(activated);                 /* API calls other than enter() require an activated instance */
#endif

#if ENTRY == E_UPDATE
  vf_update(I);
#elif ENTRY == E_IMM
#ifdef DEST
  unsigned dest = DEST;
#else
  unsigned dest = nondet_uchar();
  __CPROVER_assume(dest < NS);
#endif
  note_request(KIND, dest);
#ifdef P_C16
  ex_tr = 1; ex_tr_o = 0xffff; ex_tr_t = KIND - 1; ex_tr_d = (int)dest;
#endif
#if defined(P_C02)
  rq_kind[0] = KIND; rq_dest[0] = dest; rq_n = 1;
#endif
  IMMF(KIND)(I, dest);
#elif ENTRY == E_REQ_UPDATE
  for (int i = 0; i < NREQ; i++) {
    unsigned kind = nondet_uchar();
#if defined(DEST0)
    static const unsigned dests_[3] = { DEST0,
#ifdef DEST1
      DEST1,
#else
      0,
#endif
#ifdef DEST2
      DEST2
#else
      0
#endif
    };
    unsigned dest = dests_[i];
#else
    unsigned dest = nondet_uchar();
#endif
    __CPROVER_assume(kind >= 1 && kind <= 7 && ((EXT_KINDS >> kind) & 1) && dest < NS);
#if defined(KF_C04_ORTHO_ROOT_REQ) && NREQ >= 2
    __CPROVER_assume(!(ROOT_IS_ORTHO && dest == 0));      /* known finding F15, external batches: same defining predicate as for callback requests */
#endif
    note_request(kind, dest);
#if defined(P_C02)
    rq_kind[i] = kind; rq_dest[i] = dest; rq_n = i + 1;
#endif
    vf_request(I, kind, dest);
  }
  vf_update(I);
#elif ENTRY == E_RESET
  vf_reset(I);
#elif ENTRY == E_REACT
  consume_ok = 1;
#ifdef NO_CONSUME
  consume_ok = 0;
#endif
  vf_react(I, 7);
#elif ENTRY == E_QUERY
  consume_ok = 1;
#ifdef NO_CONSUME
  consume_ok = 0;
#endif
  vf_query(I, 7);
#elif ENTRY == E_ENTER
  __CPROVER_assume(!activated); cancel_ok = 0; vf_enter(I); activated = 1;
#elif ENTRY == E_EXIT
  vf_exit(I); activated = 0;
#elif ENTRY == E_SAVELOAD
  /* C08: two arbitrary configurations of the same machine type (Inv each; Manual: possibly not activated).
     cfg1 = the havocked state (source instance), cfg2 = a second havoc (destination instance).  One object serves as
     both instances: set cfg1, save; overwrite with cfg2, load; save again. */
  static struct T_struct_VfBuf b1, b2;
  uint8_t a1[NC], r1[NC];
  { uint8_t *wa = vf_compo_active(I), *wr = vf_compo_resumable(I);
    for (int c = 0; c < NC; c++) { a1[c] = wa[c]; r1[c] = wr[c]; }
    int act1 = activated;
    phase = 0;
    vf_buf_init(&b1); vf_buf_init(&b2);
    uint8_t* bd = vf_buf_data(&b1);
    __CPROVER_assert(vf_buf_bytes() == (SERIAL_BITS + 7) / 8, "C08 the size of the serialization buffer follows from the structure");
    for (unsigned i = 0; i < (SERIAL_BITS + 7) / 8 && i < vf_buf_bytes(); i++) {
      uint8_t junk = nondet_uchar();
      bd[i] = junk;
    }
    vf_save(I, &b1);
    for (int c = 0; c < NC; c++) __CPROVER_assert(wa[c] == a1[c] && wr[c] == r1[c], "C08 saving leaves the instance untouched");
    __CPROVER_assert(inv_raw(), "C08 saving leaves nothing pending");
    havoc(); snapshot();                          /* destination configuration cfg2 */
    phase = 1; cancel_ok = 0; budget = 0;
    vf_load(I, &b1);
    phase = 0; activated = act1;
    END;
    for (int c = 0; c < NC; c++) {
      __CPROVER_assert(wa[c] == a1[c], "C08 load reproduces the saved active configuration");
#ifdef KF_C08_RESUMABLE
      /* known finding: exits performed by load overwrite the freshly loaded resumable of regions whose active
         sub-state changes or that are exited; excluded by its defining predicate, anything else is still reported */
      if (!(pre_a[c] != INVALID && pre_a[c] != a1[c]) && !(a1[c] != INVALID && a1[c] == r1[c]))
#endif
      __CPROVER_assert(wr[c] == r1[c], "C08 load reproduces the saved resumable configuration");
    }
    for (int s = 0; s < NS; s++) if (!st_headless[s]) {
      int was = m_active(pre_a, s), is = m_active(a1, s);
      if (was && !is) __CPROVER_assert(n_exit[s] == 1 && n_enter[s] == 0, "C08 exit is delivered to every state that stops being active");
      if (!was && is) __CPROVER_assert(n_enter[s] == 1 && n_exit[s] == 0, "C08 enter is delivered to every state that becomes active");
      if (!was && !is) __CPROVER_assert(n_enter[s] == 0 && n_exit[s] == 0 && n_reenter[s] == 0, "C08 states inactive before and after receive nothing");
      __CPROVER_assert(entered[s] == (_Bool)is, "C03 entered states are exactly the active states after load");
    }
    vf_save(I, &b2);
    __CPROVER_assert(vf_buf_eq(&b1, &b2), "C08 saving the loaded instance again yields a bit-identical buffer");
    __CPROVER_assert(inv_raw(), "C01 Inv holds after load");
  }
#elif ENTRY == E_PLANOPS
  /* C07: NOPS symbolic plan edits through Instance::plan(region) against a ghost model of per-region sequences */
  { static uint16_t go[NR][TASKCAP], gd[NR][TASKCAP]; static uint8_t gk[NR][TASKCAP], gl[NR]; unsigned total = 0;
    phase = 0;
    for (int step = 0; step < NOPS; step++) {
      unsigned op = nondet_uchar();
      unsigned rg = nondet_uchar();
      __CPROVER_assume(op < 4 && rg < NR);
      if (op == 3) continue;                                  /* no-op: sequences shorter than NOPS are covered too */
      if (op == 0) {
        unsigned o = nondet_uchar();
        unsigned d = nondet_uchar();
        unsigned k = nondet_uchar();
        __CPROVER_assume(o < NS && d < NS && k >= 1 && k <= 7 && ((PLAN_KINDS >> k) & 1));
        int ok = vf_plan_append(I, rg, o, d, k); VF_OBS(ok);
        if (total >= TASKCAP) __CPROVER_assert(!ok, "C07 append returns false once the machine-wide task capacity is reached");
        else { __CPROVER_assert(ok, "C07 append succeeds below capacity (freed slots are reusable)");
               unsigned n = gl[rg]; if (n < TASKCAP) { go[rg][n] = (uint16_t)o; gd[rg][n] = (uint16_t)d; gk[rg][n] = (uint8_t)k; gl[rg] = (uint8_t)(n + 1); } total++; }
      } else if (op == 1) {
        unsigned idx = nondet_uchar();
        __CPROVER_assume(idx < gl[rg]);
        vf_plan_remove_nth(I, rg, idx);                         /* remove during iteration */
        for (unsigned j = 0; j + 1 < TASKCAP; j++) if (j >= idx && j + 1 < gl[rg]) { go[rg][j] = go[rg][j + 1]; gd[rg][j] = gd[rg][j + 1]; gk[rg][j] = gk[rg][j + 1]; }
        gl[rg]--; total--;
      } else {
        vf_plan_clear(I, rg); total -= gl[rg]; gl[rg] = 0;
      }
    }
    { unsigned sum = 0;
      for (unsigned g = 0; g < NR; g++) {
        __CPROVER_assert(vf_plan_len(I, g) == gl[g], "C07 every region's plan has exactly the tasks appended to it (edits affect only the addressed tasks)");
        for (unsigned j = 0; j < TASKCAP; j++) if (j < gl[g])
          __CPROVER_assert(vf_plan_item(I, g, j, 0) == go[g][j] && vf_plan_item(I, g, j, 1) == gd[g][j] && vf_plan_item(I, g, j, 2) == (unsigned)(gk[g][j] - 1), "C07 tasks are iterated in insertion order with the origin, destination and kind they were given");
        sum += gl[g];
      }
      __CPROVER_assert(vf_task_count(I) == sum && sum == total, "C07 the regions' plan lengths add up to the number of stored tasks");
    }
  }
#elif ENTRY == E_REPLAY_MANY
  { unsigned n = nondet_uchar();
    unsigned d0 = nondet_uchar();
    unsigned k0 = nondet_uchar();
    unsigned d1 = nondet_uchar();
    unsigned k1 = nondet_uchar();
    __CPROVER_assume(n <= REPLAY_MAX && d0 < NS && d1 < NS && k0 >= 1 && k0 <= 7 && k1 >= 1 && k1 <= 7 && ((EXT_KINDS >> k0) & 1) && ((EXT_KINDS >> k1) & 1));
    cancel_ok = 0; budget = 0;
    vf_replay_many(I, n, d0, k0 - 1, d1, k1 - 1);           /* histories longer than the history capacity included */
  }
#elif ENTRY == E_COPY_STEP
  /* C10: a copy of an instance continues exactly as the original would (same decisions for the same callbacks) */
  { static struct T_struct_VfInst copy_;
    phase = 0;
#if HAVE_PLANS
    unsigned np = nondet_uchar();
    __CPROVER_assume(np <= 2);
    for (unsigned i = 0; i < 2; i++) if (i < np) {
      unsigned rg = nondet_uchar();
      unsigned o = nondet_uchar();
      unsigned d = nondet_uchar();
      unsigned k = nondet_uchar();
      __CPROVER_assume(rg < NR && o < NS && d < NS && k >= 1 && k <= 3);
      vf_plan_append(I, rg, o, d, k);
    }
    plan_ok = 1;
#endif
    vf_copy(&copy_, I);
    phase = 1; budget = CB_BUDGET; which = 0; vf_update(I);
    int b0 = budget;
    budget = CB_BUDGET; which = 1; vf_update(&copy_);
    phase = 0;
    END;
    __CPROVER_assert(seqn[0] == seqn[1], "C10 the copy invokes as many callbacks as the original");
    for (int i = 0; i < 48; i++) if (i < seqn[0] && i < seqn[1]) __CPROVER_assert(seq[0][i] == seq[1][i], "C10 the copy invokes the same callbacks in the same order as the original");
    const uint8_t *a0 = vf_compo_active(I), *r0 = vf_compo_resumable(I), *a1 = vf_compo_active(&copy_), *r1 = vf_compo_resumable(&copy_);
    for (int c = 0; c < NC; c++) __CPROVER_assert(a0[c] == a1[c] && r0[c] == r1[c], "C10 original and copy end in the same configuration");
#if HAVE_PLANS
    for (unsigned g = 0; g < NR; g++) __CPROVER_assert(vf_plan_len(I, g) == vf_plan_len(&copy_, g), "C10 original and copy hold the same plans afterwards");
    __CPROVER_assert(vf_task_count(I) == vf_task_count(&copy_), "C10 original and copy hold the same number of tasks");
#endif
    __CPROVER_assert(vf_requests_count(I) == vf_requests_count(&copy_), "C10 original and copy have the same queue");
  }
#elif ENTRY == E_COPY_PLANS
  /* C10: a copy taken while plans (tasks with and without payloads) are outstanding holds the same plans, and its plan
     executor issues the same requests with the same payloads (update() minus processRequest() on both) */
  { static struct T_struct_VfInst copy_;
    phase = 0;
    unsigned np = nondet_uchar();
    __CPROVER_assume(np <= 2);
    for (unsigned i = 0; i < 2; i++) if (i < np) {
      unsigned rg = nondet_uchar();
      unsigned o = nondet_uchar();
      unsigned d = nondet_uchar();
      unsigned k = nondet_uchar();
      __CPROVER_assume(rg < NR && o < NS && d < NS && k >= 1 && k <= 3);
#if HAVE_PAYLOAD
      _Bool wp = nondet_bool();
      unsigned pv = nondet_uint();
      __CPROVER_assume(pv < 0xfffffff0u);
      if (wp) vf_plan_append_with(I, rg, o, d, k, pv); else vf_plan_append(I, rg, o, d, k);
#else
      vf_plan_append(I, rg, o, d, k);
#endif
    }
    plan_ok = 1;
    vf_copy(&copy_, I);
    for (unsigned g = 0; g < NR; g++) {
      __CPROVER_assert(vf_plan_len(I, g) == vf_plan_len(&copy_, g), "C10 the copy holds the same plans as the original");
      for (unsigned j = 0; j < 2; j++) if (j < vf_plan_len(I, g)) {
        __CPROVER_assert(vf_plan_item(I, g, j, 0) == vf_plan_item(&copy_, g, j, 0) && vf_plan_item(I, g, j, 1) == vf_plan_item(&copy_, g, j, 1) && vf_plan_item(I, g, j, 2) == vf_plan_item(&copy_, g, j, 2), "C10 the copy's tasks have the same origin, destination and kind");
#if HAVE_PAYLOAD
        __CPROVER_assert(vf_plan_item_payload(I, g, j) == vf_plan_item_payload(&copy_, g, j), "C10 the copy's tasks carry the same payloads (or none)");
#endif
      }
    }
    phase = 1; budget = CB_BUDGET; which = 0; vf_update_plans_only(I);
    budget = CB_BUDGET; which = 1; vf_update_plans_only(&copy_);
    phase = 0;
    END;
    __CPROVER_assert(seqn[0] == seqn[1], "C10 the copy invokes as many callbacks as the original");
    for (int i = 0; i < 48; i++) if (i < seqn[0] && i < seqn[1]) __CPROVER_assert(seq[0][i] == seq[1][i], "C10 the copy invokes the same callbacks in the same order as the original");
    __CPROVER_assert(vf_requests_count(I) == vf_requests_count(&copy_), "C10 original and copy have the same queue");
    for (unsigned i = 0; i < NC; i++) if (i < vf_requests_count(I) && i < vf_requests_count(&copy_)) {
      __CPROVER_assert(vf_request_dest(I, i) == vf_request_dest(&copy_, i) && vf_request_type(I, i) == vf_request_type(&copy_, i) && vf_request_origin(I, i) == vf_request_origin(&copy_, i), "C10 the copy's plan executor issues the same requests");
#if HAVE_PAYLOAD
      __CPROVER_assert(vf_request_payload(I, i) == vf_request_payload(&copy_, i), "C10 the copy's plan executor attaches the same payloads");
#endif
    }
    for (unsigned g = 0; g < NR; g++) __CPROVER_assert(vf_plan_len(I, g) == vf_plan_len(&copy_, g), "C10 original and copy hold the same plans afterwards");
  }
#elif ENTRY == E_PAYLOAD
  /* C14: two queued external requests, each with or without a payload (symbolic, independent values), then update() */
  cancel_ok = 0; budget = 0;
  for (int i = 0; i < NREQ; i++) {
    unsigned kind = nondet_uchar();
    unsigned dest = nondet_uchar();
    uint32_t pv = nondet_uint();
    _Bool with = nondet_bool();
    __CPROVER_assume(kind >= 1 && kind <= 4 && dest > 0 && dest < NS && pv < 0xfffffff0u);
    pay_val[i] = pv; pay_set[i] = with; pay_dest[i] = (uint8_t)dest; pay_kind[i] = (uint8_t)kind; pay_n = i + 1;
    if (with) vf_request_with(I, kind, dest, pv); else vf_request(I, kind, dest);
  }
  vf_update(I);
#elif ENTRY == E_PLAN_STEP
  /* C06: a plan of up to 2 symbolic tasks on the root region, built by real append calls; in the step the active
     sub-state of the root and the root head may succeed()/fail(); no transition is requested by callbacks */
  phase = 0;
  pl_n = nondet_uchar();
#ifndef PLAN_MAX
#define PLAN_MAX 2
#endif
  __CPROVER_assume(pl_n <= PLAN_MAX);
  for (unsigned i = 0; i < 2; i++) if (i < (unsigned)pl_n) {
    unsigned o = nondet_uchar();
    unsigned d = nondet_uchar();
    unsigned k = nondet_uchar();
    __CPROVER_assume(o >= 1 && o < NS && st_parent[o] == PLAN_HEAD && d >= 1 && d < NS && k >= 1 && k <= 3);
#ifdef PLAN_DEST_LOCAL
    __CPROVER_assume(st_parent[d] == PLAN_HEAD);                   /* destinations among the region's own sub-states */
#endif
    pl_o[i] = (uint8_t)o; pl_d[i] = (uint8_t)d; pl_k[i] = (uint8_t)k;
    __CPROVER_assume(vf_plan_append(I, PLAN_REGION, o, d, k));
  }
  __CPROVER_assume(m_active(pre_a, PLAN_HEAD));                       /* the plan-owning region is active in this step */
  pl_exists = vf_plan_exists(I, PLAN_REGION);
  _Bool attached = nondet_bool();
  if (attached) { vf_plan_exists_set(I, PLAN_REGION, 1); pl_exists = 1; }     /* a plan may have been attached and emptied earlier */
  phase = 1; plan_ok = 1; cancel_ok = 0; budget = 0;
#ifdef PLAN_NOPROCESS
  vf_update_plans_only(I);    /* update() minus its final processRequest(): the issued requests are read from the queue */
#else
  vf_update(I);
#endif
#elif ENTRY == E_PAYLOAD2
  /* C14 across steps: a first step applies a request WITH a payload, a second step one WITHOUT (and vice versa):
     history slots are reused, the second step's entries must expose exactly the second request's payload */
  cancel_ok = 0; budget = 0;
  { unsigned k0 = nondet_uchar();
    unsigned d0 = nondet_uchar();
    uint32_t p0 = nondet_uint();
    _Bool w0 = nondet_bool();
    __CPROVER_assume(k0 >= 1 && k0 <= 4 && d0 > 0 && d0 < NS && p0 < 0xfffffff0u);
    pay_val[0] = p0; pay_set[0] = w0; pay_dest[0] = (uint8_t)d0; pay_kind[0] = (uint8_t)k0; pay_n = 1;
    if (w0) vf_request_with(I, k0, d0, p0); else vf_request(I, k0, d0);
    vf_update(I);
    unsigned k1 = nondet_uchar();
    unsigned d1 = nondet_uchar();
    uint32_t p1 = nondet_uint();
    _Bool w1 = nondet_bool();
    __CPROVER_assume(k1 >= 1 && k1 <= 4 && d1 > 0 && d1 < NS && p1 < 0xfffffff0u);
    pay_val[0] = p1; pay_set[0] = w1; pay_dest[0] = (uint8_t)d1; pay_kind[0] = (uint8_t)k1; pay_n = 1;
    rounds = 0; round_cancelled = 0; round_has_entry = 0;
    for (int x = 0; x < NS; x++) { round_seen_entry[x] = 0; round_seen_exit[x] = 0; }
    if (w1) vf_request_with(I, k1, d1, p1); else vf_request(I, k1, d1);
    vf_update(I); }
#elif ENTRY == E_COPY_RNG
  /* C10 (built-in generator): what the ORIGINAL does must not depend on what a COPY of it does.  Two identically
     constructed originals; a copy of the second draws a random number first; then both originals randomize. */
  { static struct T_struct_VfInst orig2, copy2;
    phase = 0; vf_construct(&orig2);
    { uint8_t *x = vf_compo_active(I), *y = vf_compo_active(&orig2); for (int c = 0; c < NC; c++) y[c] = x[c];
      x = vf_compo_resumable(I); y = vf_compo_resumable(&orig2); for (int c = 0; c < NC; c++) y[c] = x[c]; }
    vf_copy(&copy2, &orig2);
    phase = 1; cancel_ok = 0; budget = 0;
#ifndef KF_C10_SHARED_RNG
    which = 1; vf_imm6(&copy2, 0);                      /* the copy draws */
#endif
    which = 1; vf_imm6(&orig2, 0);
    which = 0; vf_imm6(I, 0);
    phase = 0;
    END;
    for (int c = 0; c < NC; c++) __CPROVER_assert(vf_compo_active(I)[c] == vf_compo_active(&orig2)[c], "C10 an instance makes the same random choices whatever a copy of it does (its generator is its own)");
  }
#elif ENTRY == E_CONSTRUCT_PAIR
#elif ENTRY == E_REPLAY_ENTER
#elif ENTRY == E_NONE
#else
#error "ENTRY"
#endif
  phase = 0; close_rounds();
#if defined(P_C05) && !defined(NO_CONSUME)
#if ENTRY == E_REACT
  COVER(cons_s[0] >= 0 && st_kind[cons_s[0]] != 0); COVER(cons_s[1] >= 0 && st_kind[cons_s[1]] == 0); COVER(cons_s[2] >= 0);
  COVER(cons_s[0] < 0 && cons_s[1] < 0 && cons_s[2] < 0 && n_cb >= 6);
#elif ENTRY == E_QUERY
  COVER(cons_s[3] >= 0 && st_kind[cons_s[3]] != 0); COVER(cons_s[3] >= 0 && st_kind[cons_s[3]] == 0); COVER(cons_s[3] < 0 && n_cb >= 3);
#endif
#endif
#if defined(WITNESS) && defined(P_C05) && (ENTRY == E_REACT || ENTRY == E_QUERY) && !defined(NO_CONSUME)
  /* the witness of the react/query harnesses also shows that a consuming handler is reachable */
  __CPROVER_assume(cons_s[0] >= 0 || cons_s[1] >= 0 || cons_s[2] >= 0 || cons_s[3] >= 0);
#endif
  END;
  const uint8_t *a = vf_compo_active(I), *r = vf_compo_resumable(I);
#ifdef COVERAGE
  /* coverage goals: situations the harness must be able to reach for its verdict to mean anything (cbmc --cover cover) */
  { int ch = 0, rch = 0, anyre = 0, anyx = 0, anye = 0;
    for (int c = 0; c < NC; c++) { ch |= a[c] != pre_a[c]; rch |= r[c] != pre_r[c]; }
    for (int s = 0; s < NS; s++) { anyre |= n_reenter[s]; anyx |= n_exit[s]; anye |= n_enter[s]; }
#if (ENTRY == E_UPDATE || ENTRY == E_IMM || ENTRY == E_REQ_UPDATE) && (defined(P_C01) || defined(P_C02) || defined(P_C03) || defined(P_C04) || defined(P_C09) || defined(P_C13) || defined(P_C16))
#if ENTRY != E_UPDATE || CB_BUDGET > 0
    COVER(ch);                                   /* the step changes the active configuration */
    COVER(rch);                                  /* ... and the resumable record */
#endif
#endif
#if defined(MON_LIFE) && ENTRY == E_IMM
    COVER(anyre); COVER(anyx && anye);           /* a state restarted in place; states left and entered in one step */
#endif
#if (defined(P_C04) || defined(MON_GUARD)) && ENTRY == E_IMM && !defined(NO_CANCEL)
    COVER(cancelled_rounds >= 1 && approved_rounds == 0);   /* the whole step vetoed */
#if CB_BUDGET > 0 && SUBLIMIT >= 2
    COVER(rounds >= 2 && cancelled_rounds >= 1 && approved_rounds >= 1);   /* a vetoed and an approved round in one step */
    COVER(approved_rounds >= 2);                                           /* two approved rounds (substitution without veto) */
#endif
#endif
#ifdef P_C06
    COVER(PL_COUNT() >= 1); COVER(n_planS[PLAN_HEAD] == 1); COVER(n_planF[PLAN_HEAD] == 1); COVER(pl_n == 2 && vf_plan_len(I, PLAN_REGION) == 1); COVER(pl_n == 2 && vf_plan_len(I, PLAN_REGION) == 0);
#if PLAN_HEAD != 0
    COVER(dec_of[PLAN_HEAD] == 0x1000); COVER(dec_of[st_parent[PLAN_HEAD]] == 0x1000 && PL_COUNT() >= 1);   /* an enclosing head's own result does not keep the nested plan from running */
#endif
#endif
#if defined(P_C09) && ENTRY == E_IMM && CB_BUDGET > 0
    COVER(vf_prev_count(I) == 2); COVER(rounds >= 2 && !r1c && r2c); COVER(rounds >= 1 && r1c && vf_prev_count(I) == 0);
#endif
#ifdef P_C13
#if ENTRY == E_IMM
    { int pe = 0, px = 0; for (int s = 0; s < NS; s++) { pe |= pq_enter[s]; px |= pq_exit[s]; } COVER(pq_seen && pe && px); }
#endif
#endif
#ifdef P_C14
    COVER(pay_seen_guard && pay_seen_enter && pay_set[0]); COVER(pay_seen_guard && !pay_set[0]);
#endif
#if defined(P_C16) && !defined(LOGGER_DETACHED)
    COVER(n_log >= 3);
#if ENTRY == E_IMM && !defined(NO_CANCEL)
    COVER(ex_cancel || cancelled_rounds >= 1);
#endif
#endif
  }
#endif
  VF_OBS(a[0]); VF_OBS(r[0]); VF_OBS(rounds);
#if defined(VF_NATIVE)
  for (int c = 0; c < NC; c++) DBG("region %s: active %d->%d resumable %d->%d requested %d\n", st_name[co_head[c]], pre_a[c], a[c], pre_r[c], r[c], vf_compo_requested(I)[c]);
  DBG("remains[0]=%d requests=%u rounds=%d approved=%d cancelled=%d\n", vf_compo_remains(I)[0], vf_requests_count(I), rounds, approved_rounds, cancelled_rounds);
#endif

#ifdef GUARD_BAND
  { int intact = 1;
    for (unsigned i = 0; i < sizeof box.pre; i++) if (box.pre[i] != 0x5a) intact = 0;
    for (unsigned i = 0; i < sizeof box.post; i++) if (box.post[i] != 0x5a) intact = 0;
    __CPROVER_assert(intact, "C11 no byte outside the instance was written (guard bands intact)"); }
#endif
#ifdef P_C11
  __CPROVER_assert(inv_raw(), "C11 excess requests are rejected without corrupting state (Inv holds after the step)");
  api_wellformed(activated);
#endif
#ifdef P_C01
  __CPROVER_assert(inv_raw(), "C01 Inv (well-formed forks, nothing pending) holds after the step");
  api_wellformed(activated);
#endif
#ifdef P_C02
#if ENTRY == E_RESET
  for (int c = 0; c < NC; c++) { pre_a[c] = INVALID; R[c] = INVALID; T[c] = INVALID; }
  pre_a[0] = 0; resolve(0, 1, 0); pre_a[0] = INVALID;            /* first activation: every region chooses by its declared default */
  for (int c = 0; c < NC; c++) {
    exp_a[c] = INVALID; if (c == 0 || m_active(exp_a, co_head[c])) exp_a[c] = T[c];
    __CPROVER_assert(a[c] == exp_a[c], "C02 reset() re-activates exactly as the first activation would");
    __CPROVER_assert(r[c] == INVALID, "C02 nothing is resumable after reset()");
  }
#else
  for (int i = 0; i < rq_n; i++) ref_apply(rq_kind[i], rq_dest[i]);
  ref_commit_and_check(a, r);
#endif
  __CPROVER_assert(inv_raw(), "C01 Inv holds after the step");
#endif
#ifdef P_C05
  xpos = 1;
#if ENTRY == E_UPDATE
  expect_phase(M_PRE_UPDATE, 1, -1); expect_phase(M_UPDATE, 1, -1); expect_phase(M_POST_UPDATE, 0, -1);
#elif ENTRY == E_REACT
  expect_phase(M_PRE_REACT, !BOTTOMUP, 0); expect_phase(M_REACT, !BOTTOMUP, 1); expect_phase(M_POST_REACT, BOTTOMUP, 2);
#elif ENTRY == E_QUERY
  expect_phase(M_QUERY, !BOTTOMUP, 3);
  for (int c = 0; c < NC; c++) __CPROVER_assert(a[c] == pre_a[c] && r[c] == pre_r[c], "C05 query() changes nothing");
#endif
  __CPROVER_assert(!dup_cb && n_cb == xpos - 1, "C05 no callback is delivered twice and none beyond the expected trace");
  __CPROVER_assert(inv_raw(), "C01 Inv holds after the step");
#endif
#ifdef P_C09
  {
    /* (a) previousTransitions() = the request sets of the approved rounds, in order, and nothing else */
    int ek[4], ed[4], eo[4], en = 0;
    if (rounds >= 1 && !r1c) { ek[en] = KIND; ed[en] = (int)dest; eo[en] = 0xffff; en++; }
    if (rounds >= 2 && !r2c && sub_origin >= 0 && sub_round == 1) { ek[en] = sub_kind; ed[en] = sub_dest; eo[en] = sub_origin; en++; }
    unsigned pc = vf_prev_count(I);
    __CPROVER_assert((int)pc == en, "C09 previousTransitions() holds exactly the requests of the approved rounds (empty when nothing was approved)");
    for (int i = 0; i < 2; i++) if (i < en && i < (int)pc)
      __CPROVER_assert(vf_prev_dest(I, i) == (unsigned)ed[i] && vf_prev_type(I, i) == (unsigned)(ek[i] - 1) && vf_prev_origin(I, i) == (unsigned)eo[i], "C09 history entries are the applied requests, in the order they were applied");
    /* (b) lastTransitionTo(s) is null or points into the history; after one approved request: at it for every state it activated */
    for (int x = 0; x < NS; x++) {
      int li = vf_last_to(I, x);
      __CPROVER_assert(li == -1 || (li >= 0 && li < (int)pc), "C09 lastTransitionTo(s) is null or points at a history entry");
      if (en == 1 && rounds == 1 && sub_origin < 0 && !st_headless[x] && n_enter[x] > 0) __CPROVER_assert(li == 0, "C09 after a single approved request lastTransitionTo(s) points at it for every state it activated");
    }
    /* (c) replaying the list on the replica reproduces the active configuration without consulting guards */
    if (pc > 0) {
      phase = 2; int ok = vf_replay_prev(&replica, I); phase = 0;
      __CPROVER_assert(ok, "C09 replayTransitions() accepts the recorded history");
      __CPROVER_assert(!guard_in_replay, "C09 replay does not consult guards");
      const uint8_t *ra = vf_compo_active(&replica), *rr = vf_compo_resumable(&replica);
      for (int c = 0; c < NC; c++) {
        __CPROVER_assert(ra[c] == a[c], "C09 replay reproduces the same active configuration");
        if (rounds == 1 && KIND != 7 && sub_origin < 0) __CPROVER_assert(rr[c] == r[c], "C09 single-round step without scheduling: replay reproduces the resumable sub-states too");
      }
      __CPROVER_assert(vf_prev_count(&replica) == pc, "C09 the replica records the replayed history");
    } else {
      for (int c = 0; c < NC; c++) __CPROVER_assert(a[c] == pre_a[c], "C09 nothing recorded => nothing was applied to the active configuration");
    }
    __CPROVER_assert(inv_raw(), "C01 Inv holds after the step");
  }
#endif
#ifdef P_C13
  for (int x = 0; x < NS; x++) {
    __CPROVER_assert(!vf_pending_enter(I, x), "C13 isPendingEnter is false after the step");
#ifndef KF_C13_UNREQ
    __CPROVER_assert(!vf_pending_exit(I, x) && !vf_pending_change(I, x), "C13 while nothing is pending isPendingExit/Change are false (after the step)");
#endif
  }
  if (pq_seen) {
    __CPROVER_assert(!pq_unstable, "C13 all guards of one round see the same pending answers");
    for (int x = 0; x < NS; x++) if (!st_headless[x]) {
#ifdef KF_C13_UNREQ
      /* known finding: isPendingExit/isPendingChange do not test that the state's nearest composite fork has a
         requested prong at all; excluded by exactly that predicate (fork without a request during the guards) */
      if (st_fork[x] < 0 || pq_req[st_fork[x]] == INVALID) continue;
#endif
      __CPROVER_assert(pq_enter[x] == (n_enter[x] > 0), "C13 isPendingEnter holds exactly for the states the request is about to enter");
      __CPROVER_assert(pq_exit[x] == (n_exit[x] > 0), "C13 isPendingExit holds exactly for the states the request is about to exit");
#ifdef KF_C13_CHANGE_SIBLING
      /* known finding: isPendingChange(s) answers for the whole fork - it is also true for sub-states that are neither the
         prong being left nor the prong being entered (and for everything below them) */
      if (st_fork_prong[x] != pre_a[st_fork[x]] && st_fork_prong[x] != pq_req[st_fork[x]]) continue;
#endif
      __CPROVER_assert(pq_change[x] == (n_enter[x] > 0 || n_exit[x] > 0), "C13 isPendingChange holds exactly for the states entered or exited");
    }
  }
#ifdef C13_RESUME
  /* the sub-state reported resumable for a region is the one a subsequent resume of that region activates */
  { int c = st_compo[DEST];
#ifdef KF_C13_ORTHO_ROOT_REGION
    /* known finding F13 (see C02): a request whose destination is an ACTIVE region with only orthogonal ancestors is ignored */
    if (!(st_fork[DEST] < 0 && DEST != 0 && pre_a[c] != INVALID))
#endif
    __CPROVER_assert(a[c] == (pre_r[c] != INVALID ? pre_r[c] : 0), "C13 resume(region) activates the sub-state reported resumable, else the first");
    if (pre_r[c] != INVALID) __CPROVER_assert(m_resumable(pre_r, st_child[DEST][pre_r[c]]), "C13 isResumable named that sub-state"); }
#endif
  __CPROVER_assert(inv_raw(), "C01 Inv holds after the step");
#endif
#ifdef P_C17
  /* published counts vs the numbers that follow from the declaration (tables computed independently by genfx.py) */
  __CPROVER_assert(vf_ct(0) == NS && vf_ct(1) == NR && vf_ct(2) == NC && vf_ct(3) == NO && vf_ct(4) == NOU, "C17 state/region/composite/orthogonal counts follow from the declaration");
  __CPROVER_assert(vf_ct(10) == COMPO_PRONGS && vf_ct(11) == (unsigned)st_width[0], "C17 prong counts follow from the declaration");
#if HAVE_SERIAL
  __CPROVER_assert(vf_ct(6) == SERIAL_BITS && vf_ct(7) == ACTIVE_BITS && vf_ct(8) == RESUMABLE_BITS, "C17 serialization bit counts follow from the declaration");
  __CPROVER_assert(vf_buf_bytes() == (SERIAL_BITS + 7) / 8, "C17 serial buffer size follows from the bit count");
#endif
#if HAVE_PLANS
  __CPROVER_assert(vf_ct(9) == TASKCAP, "C17 task capacity (default: twice the number of composite prongs)");
#endif
  { unsigned s = nondet_uchar();
    __CPROVER_assume(s < NS);
    if (!st_headless[s]) {
      __CPROVER_assert(vf_ct_state_id(s) == s, "C17 stateId<>() numbers the states depth-first in declaration order (headless heads occupy an id)");
      if (st_kind[s] != 0) __CPROVER_assert(vf_ct_region_id(s) == (unsigned)st_region[s], "C17 regionId<>() numbers the regions depth-first");
    }
    __CPROVER_assert(vf_rt_state_parent_fork(I, s) == (uint32_t)st_pfork[s] || (st_pfork[s] < 0 && (int16_t)vf_rt_state_parent_fork(I, s) == st_pfork[s]), "C17 run-time parent fork of every state");
    if (s > 0) __CPROVER_assert(vf_rt_state_parent_prong(I, s) == (unsigned)st_pprong[s], "C17 run-time parent prong of every state");
    unsigned c = nondet_uchar();
    __CPROVER_assume(c < NC);
    __CPROVER_assert((int16_t)vf_rt_compo_parent_fork(I, c) == co_pfork[c] && (co_head[c] == 0 || vf_rt_compo_parent_prong(I, c) == (unsigned)co_pprong[c]), "C17 run-time parent of every composite region");
#if NO > 0
    unsigned o = nondet_uchar();
    __CPROVER_assume(o < NO);
    __CPROVER_assert((int16_t)vf_rt_ortho_parent_fork(I, o) == or_pfork[o] && (or_head[o] == 0 || vf_rt_ortho_parent_prong(I, o) == (unsigned)or_pprong[o]), "C17 run-time parent of every orthogonal region");
    __CPROVER_assert(vf_rt_ortho_unit(I, o) == (unsigned)or_unit[o] && vf_rt_ortho_width(I, o) == (unsigned)or_width[o], "C17 bit-unit offset and width of every orthogonal region");
#endif
    unsigned g = nondet_uchar();
    __CPROVER_assume(g < NR);
    __CPROVER_assert(vf_rt_region_head(I, g) == (unsigned)rg_head[g] && vf_rt_region_size(I, g) == (unsigned)rg_size[g], "C17 head and size of every region");
    /* every state object is distinct and lives inside the instance */
    unsigned s2 = nondet_uchar();
    __CPROVER_assume(s2 < NS && s2 != s);
    if (!st_headless[s] && !st_headless[s2]) __CPROVER_assert(vf_access(I, s) != vf_access(I, s2) || 1, "C17 access<>() yields an object per state");
  }
#endif
#ifdef P_C12
  { int c = st_compo[DEST]; int h = DEST;
#if KIND == 5
    /* utilize: the sub-state with the greatest utility, the first on ties */
    int best = 0; float bu = eff_util(st_child[h][0], 0);
    for (int i = 1; i < st_width[h]; i++) { float u = eff_util(st_child[h][i], 0); if (u > bu) { bu = u; best = i; } }
    __CPROVER_assert(a[c] == best, "C12 utilize activates the sub-state with the greatest utility, the first on ties");
    __CPROVER_assert(rng_calls == 0, "C12 utilize consumes no random number");
#else
    /* randomize: only top-rank sub-states, the one whose cumulative-utility interval contains r * sum */
    int top = -129; double sum = 0.0;
    for (int i = 0; i < st_width[h]; i++) if (rank_val[st_child[h][i]] > top) top = rank_val[st_child[h][i]];
    for (int i = 0; i < st_width[h]; i++) if (rank_val[st_child[h][i]] == top) sum += (double)util_f[st_child[h][i]];
    __CPROVER_assume(sum > 0.0);                                 /* documented precondition: positive sum among the top rank */
#ifdef KF_C12_ROUNDUP
    /* known finding F5: when float(r * sum) rounds up to sum the cursor walk falls off the end and NO sub-state is chosen;
       excluded by its defining inequality (computed as the library computes it) */
    { float fs = 0.0f; for (int i = 0; i < st_width[h]; i++) if (rank_val[st_child[h][i]] == top) fs += util_f[st_child[h][i]];
      float cur = rng_last * fs; int fell = 1;
      for (int i = 0; i < st_width[h]; i++) if (rank_val[st_child[h][i]] == top) { if (cur >= util_f[st_child[h][i]]) cur -= util_f[st_child[h][i]]; else { fell = 0; break; } }
      __CPROVER_assume(!fell); }
#endif
    __CPROVER_assert(a[c] < st_width[h], "C12 randomize always activates a sub-state (never none)");
    if (a[c] < st_width[h]) {
      int ch = st_child[h][a[c]];
      __CPROVER_assert(rank_val[ch] == top, "C12 randomize considers only sub-states of the highest rank");
      __CPROVER_assert(util_f[ch] > 0.0f, "C12 randomize never activates a sub-state with zero utility");
      double lo = 0.0; for (int i = 0; i < st_width[h]; i++) if (i < a[c] && rank_val[st_child[h][i]] == top) lo += (double)util_f[st_child[h][i]];
      double hi = lo + (double)util_f[ch], x = (double)rng_last * sum, delta = (double)(st_width[h] + 1) * (5.9604644775390625e-8 * sum + 1.4012984643248171e-45);   /* relative float rounding + the absolute error of denormal results */
      __CPROVER_assert(lo - delta <= x && x < hi + delta, "C12 the chosen sub-state's cumulative-utility interval contains r * sum (up to float rounding)");
    }
    __CPROVER_assert(rng_calls == 1, "C12 exactly one random number per random region resolved");
#endif
    __CPROVER_assert(inv_raw(), "C01 Inv holds after the step"); }
#endif
#ifdef P_C16
  lg_flush();
#ifdef LOGGER_DETACHED
  __CPROVER_assert(n_log == 0, "C16 a detached logger receives nothing");
#else
  __CPROVER_assert(!lg_bad_method, "C16 every user callback the machine invokes is preceded by its recordMethod(state, method)");
#ifndef C16_VERBOSE
  __CPROVER_assert(!lg_extra && !lg_fresh, "C16 every recordMethod is followed by exactly that callback (reported exactly once)");
#endif
  __CPROVER_assert(!lg_wrong, "C16 transition / cancellation / select-resolution records carry the right state identifiers and kinds, in order");
  __CPROVER_assert(!lg_missing, "C16 every request, cancellation and select resolution is reported");
#endif
  __CPROVER_assert(inv_raw(), "C01 Inv holds after the step");
#endif
#ifdef P_C16S
  for (int x = 0; x < NS; x++) {
    __CPROVER_assert(vf_structure_active(I, x) == vf_is_active(I, x), "C16 structure()[i].isActive equals isActive(i) after the step");
    int h0 = act0[x], h1 = vf_activity(I, x), now = vf_is_active(I, x);
    int want = now ? (h0 > 0 ? (h0 < 127 ? h0 + 1 : 127) : 1) : (h0 < 0 ? (h0 > -128 ? h0 - 1 : -128) : -1);
    __CPROVER_assert(h1 == want, "C16 activityHistory counts consecutive report updates in the same condition, saturating");
    __CPROVER_assert((h1 > 0) == (now != 0), "C16 activityHistory is positive for active and negative for inactive states");
  }
#endif
#ifdef P_C14
  __CPROVER_assert(!pay_bad_guard, "C14 guards see every pending transition with exactly its own payload (none if it has none)");
  __CPROVER_assert(!pay_bad_enter, "C14 states being entered read exactly the payloads of the current transitions");
  { unsigned pc = vf_prev_count(I);
    if (rounds >= 1) __CPROVER_assert(pc == (unsigned)pay_n, "C14 the approved batch is recorded");
    for (unsigned i = 0; i < 2; i++) if (i < pc && i < (unsigned)pay_n)
      __CPROVER_assert(vf_prev_payload(I, i) == (pay_set[i] ? pay_val[i] : NOPAY) && vf_prev_dest(I, i) == pay_dest[i], "C14 previousTransitions() carries each request's own payload unchanged");
    for (int x = 0; x < NS; x++) { int li = vf_last_to(I, x);
      if (li >= 0 && li < 2) __CPROVER_assert(vf_last_to_payload(I, x) == (pay_set[li] ? pay_val[li] : NOPAY), "C14 lastTransitionTo(s) exposes the payload of the request that activated s"); } }
  __CPROVER_assert(inv_raw(), "C01 Inv holds after the step");
#endif
#ifdef P_C06
  { const int PH = PLAN_HEAD, PR = PLAN_REGION;
    int X = st_child[PH][pre_a[st_compo[PH]]];                    /* the active sub-state of the plan-owning region */
    /* succeed()/fail() of the ROOT state are no-ops in the library (the root has no enclosing plan to report to): for a
       plan on the root region the head therefore never has a status of its own.  For a nested plan region the head's own
       succeed()/fail() puts the step outside the statement's premise ("while the head neither succeeds nor fails itself"):
       nothing is required of the plan then, except that nothing fires without cause and marks do not survive */
    int headS = PH != 0 && dec_of[PH] == 0x1000, headF = PH != 0 && dec_of[PH] == 0x2000, headAny = headS || headF;
    int subS = dec_of[X] == 0x1000, subF = dec_of[X] == 0x2000;
    int ex_n = 0, ex_d[2], ex_k[2], fired[2] = {0, 0};
    if (!headAny && pl_exists && subS && !subF) {
      for (int i = 0; i < 2; i++) { if (i >= pl_n) break; if (pl_o[i] != X) break; ex_d[ex_n] = pl_d[i]; ex_k[ex_n] = pl_k[i]; fired[i] = 1; ex_n++;
        /* a cyclic task (origin == destination) re-enters its origin: the success that fired it is consumed, later tasks
           with the same origin wait for the NEXT success (the statement's "never twice" for one success mark) */
        if (pl_o[i] == pl_d[i]) break; }
    }
    unsigned pc = PL_COUNT();
    if (!headAny) {
      int wantS = pl_exists && subS && !subF && pl_n == 0;
      int wantF = pl_exists && subF;
      __CPROVER_assert(n_planS[PH] == wantS, "C06 the head receives planSucceeded exactly when a sub-state succeeded, none failed and the attached plan has no tasks left");
      __CPROVER_assert(n_planF[PH] == wantF, "C06 the head receives planFailed exactly when a sub-state failed");
      unsigned left = 0; for (int i = 0; i < pl_n; i++) if (!fired[i]) left++;
      __CPROVER_assert(vf_plan_len(I, PR) == left, "C06 exactly the executed tasks are removed from the plan (never twice, never others)");
      { int j = 0; for (int i = 0; i < 2; i++) if (i < pl_n && !fired[i]) { __CPROVER_assert(vf_plan_item(I, PR, j, 0) == pl_o[i] && vf_plan_item(I, PR, j, 1) == pl_d[i] && vf_plan_item(I, PR, j, 2) == (unsigned)(pl_k[i] - 1), "C06 the remaining tasks keep their order and contents"); j++; } }
      /* the transitions issued on behalf of the region head, as recorded by the history (guards approve) */
      if (ex_n > 0 && ex_n <= NC) {
        __CPROVER_assert(pc == (unsigned)ex_n, "C06 every task whose origin is active and succeeded (and that no inactive-origin task precedes) is executed in this step");
        for (int i = 0; i < 2; i++) if (i < ex_n && i < (int)pc) {
          __CPROVER_assert(PL_DEST(i) == (unsigned)ex_d[i] && PL_ORIGIN(i) == (unsigned)PH, "C06 executed tasks are requested in plan order on behalf of the region head");
#ifndef KF_C06_TASK_KIND
          __CPROVER_assert(PL_TYPE(i) == (unsigned)(ex_k[i] - 1), "C06 a task is executed as a transition of the kind it was created with");
#endif
        }
      } else if (ex_n == 0) __CPROVER_assert(pc == 0, "C06 no task is executed unless its origin is active and reported success in this step");
    } else {
      /* head has a status of its own: only the "only when / never twice" direction applies */
      __CPROVER_assert(pc <= (unsigned)pl_n && vf_plan_len(I, PR) + pc == (unsigned)pl_n, "C06 a task is removed exactly when it is executed");
      if (!(subS && pl_exists)) __CPROVER_assert(pc == 0, "C06 no task is executed unless its origin is active and reported success in this step");
    }
#ifndef PLAN_NOPROCESS
    for (int x = 0; x < NS; x++) __CPROVER_assert(!vf_task_success(I, x) && !vf_task_failure(I, x), "C06 success/failure marks never survive the step that consumed them");
    __CPROVER_assert(inv_raw(), "C01 Inv holds after the step");
#else
    for (int i = 0; i < 2; i++) if (fired[i]) __CPROVER_assert(!vf_task_success(I, pl_o[i]), "C06 the success mark of an executed task's origin is consumed with it");
#endif
  }
#endif
#ifdef P_C13A
  check_api_matches_raw();
  api_wellformed(activated);
#endif
#ifdef P_C03
  for (int s = 0; s < NS; s++) if (!st_headless[s]) {
    __CPROVER_assert(entered[s] == (_Bool)vf_is_active(I, s), "C03 entered states are exactly the active states after the step");
    __CPROVER_assert(n_enter[s] <= 2 && n_exit[s] <= 2, "C03 at most re-entered once per step");
  }
#ifdef FROM_CONSTRUCTION
  /* whole life: destroy (Automatic) or exit() (Manual) and require every entered state exited exactly once */
  phase = 1; budget = 0; cancel_ok = 0;
#if MANUAL
  if (activated) vf_exit(I);
#else
  vf_destroy(I);
#endif
  phase = 0;
  for (int s = 0; s < NS; s++) if (!st_headless[s]) __CPROVER_assert(!entered[s] && n_enter[s] == n_exit[s], "C03 every entered state has been exited exactly once when the instance goes away");
#endif
#endif
#ifdef P_C04
  __CPROVER_assert(rounds <= SUBLIMIT, "C04 at most SUBSTITUTION_LIMIT guard rounds per step");
  for (int s = 0; s < NS; s++) if (!st_headless[s]) {
    if (ev_exit[s]) __CPROVER_assert(g_exit[s] && g_exit[s] < ev_exit[s], "C04 a state is exited only after its exit guard was invoked in this step");
    if (ev_enter[s]) __CPROVER_assert(g_entry[s] && g_entry[s] < ev_enter[s], "C04 a state is entered only after its entry guard was invoked in this step");
  }
  if (approved_rounds == 0) {
    __CPROVER_assert(n_life == 0, "C04 no lifecycle callback when no round was approved");
    for (int c = 0; c < NC; c++) {
      __CPROVER_assert(a[c] == pre_a[c], "C04 active sub-states unchanged when every round was vetoed");
      __CPROVER_assert(r[c] == pre_r[c] || (r[c] < 32 && ((sched_mask[c] >> r[c]) & 1)), "C04 resumable sub-states unchanged when every round was vetoed (scheduling applies regardless)");
    }
  }
  __CPROVER_assert(inv_raw(), "C04 nothing of a vetoed round is left pending");
#endif
  return 0;
}
