/* C19 harness: fixed-capacity task pool and bounded arrays vs ideal containers (ghost models). */
#include "vf_native.h"
#if defined(VF_NATIVE) && !defined(VF_TRANSLATED)
#include VF_TYPES
#else
#include VF_FIXTURE
#endif
#ifdef WITNESS
#define END __CPROVER_assert(0, "witness: end of harness reachable")
#else
#define END ((void)0)
#endif
#define INV 0xffffu
#ifndef CAP
#define CAP 3
#endif
#define CAT_(a, b, c) a##b##c
#define CAT(a, b, c) CAT_(a, b, c)
#define K(n) CAT(k_tl, CAP, _##n)
#define TLT CAT(struct T_struct_TL, CAP, )

#if defined(H_TL_SEQ) || defined(H_TL_STEP)
static TLT pool;
static _Bool live[CAP]; static uint16_t g_o[CAP], g_d[CAP]; static uint8_t g_t[CAP];
static unsigned nlive(void) { unsigned n = 0; for (unsigned i = 0; i < CAP; i++) n += live[i]; return n; }
static void check_live(void) {
  __CPROVER_assert(K(count)(&pool) == nlive(), "C19 count = number of live slots");
  __CPROVER_assert(K(empty)(&pool) == (nlive() == 0), "C19 empty() iff no live slot");
  for (unsigned i = 0; i < CAP; i++) if (live[i])
    __CPROVER_assert(K(origin)(&pool, i) == g_o[i] && K(dest)(&pool, i) == g_d[i] && K(type)(&pool, i) == g_t[i], "C19 live items keep their contents");
}
/* representation invariant of the pool, written from the data-structure description (vacant slots form a chain
   head..tail through their next links; while slots remain untouched the frontier slot _last is the chain's tail) */
static int pool_inv(void) {
  unsigned head = *K(hdr)(&pool, 0), tail = *K(hdr)(&pool, 1), last = *K(hdr)(&pool, 2), count = *K(hdr)(&pool, 3);
  if (count != nlive() || count > CAP || last > CAP) return 0;
  if (count == CAP) return last == CAP && head == INV && tail == INV;
  if (head >= CAP || tail >= CAP) return 0;
  unsigned untouched = last < CAP ? CAP - 1 - last : 0;
  if (last < CAP && tail != last) return 0;
  for (unsigned i = 0; i < CAP; i++) if (live[i] && last < CAP && i >= last) return 0;
  unsigned c = head, prev = INV, len = 0; _Bool seen[CAP] = {0};
  for (unsigned k = 0; k < CAP; k++) {
    if (c >= CAP || live[c] || seen[c]) return 0;
    if (last < CAP && c > last) return 0;
    seen[c] = 1; len++;
    /* the back links and the tail's forward link are never read by emplace/remove (only by the library's debug
       assertions, which are C11's subject): clear() legitimately leaves stale contents there -> not part of Inv */
    if (c == tail) break;
    prev = c; c = *K(next)(&pool, c);
    if (k == CAP - 1) return 0;
  }
  return len + count + untouched == CAP;
}
static void do_op(void) {
  unsigned op = nondet_uchar();
  __CPROVER_assume(op < 3);
  if (op == 0) {
    unsigned o = nondet_ushort();
    unsigned d = nondet_ushort();
    unsigned t = nondet_uchar();
    __CPROVER_assume(t < 7);
    unsigned before = nlive();
    unsigned i = K(emplace)(&pool, o, d, t); VF_OBS(i);
    if (before == CAP) { __CPROVER_assert(i == INV, "C19 insert fails when full"); }
    else {
      __CPROVER_assert(i < CAP, "C19 insert returns a slot when not full");
      if (i < CAP) { __CPROVER_assert(!live[i], "C19 insert returns a slot not currently in use"); live[i] = 1; g_o[i] = o; g_d[i] = d; g_t[i] = t; }
    }
  } else if (op == 1) {
    unsigned i = nondet_uchar();
    __CPROVER_assume(i < CAP && live[i]);
    K(remove)(&pool, i); live[i] = 0;
  } else {
    K(clear)(&pool); for (unsigned i = 0; i < CAP; i++) live[i] = 0;
  }
}
#endif

int main(void) {
#if defined(H_TL_SEQ)
  /* every sequence of NOPS insert/remove/clear from the empty pool */
  K(init)(&pool);
  for (unsigned s = 0; s < NOPS; s++) { do_op(); check_live(); __CPROVER_assert(pool_inv(), "C19 pool invariant after every operation"); }
#elif defined(H_TL_STEP)
  /* inductive step: ANY pool satisfying the invariant, one arbitrary operation */
  K(init)(&pool);
  *K(hdr)(&pool, 0) = nondet_ushort();
  *K(hdr)(&pool, 1) = nondet_ushort();
  *K(hdr)(&pool, 2) = nondet_ushort();
  *K(hdr)(&pool, 3) = nondet_ushort();
  for (unsigned i = 0; i < CAP; i++) {
    live[i] = nondet_bool();
    *K(prev)(&pool, i) = nondet_ushort();
    *K(next)(&pool, i) = nondet_ushort();
    *K(ty)(&pool, i) = nondet_uchar();
    if (live[i]) { g_o[i] = *K(prev)(&pool, i); g_d[i] = *K(next)(&pool, i); g_t[i] = *K(ty)(&pool, i); }
  }
  __CPROVER_assume(pool_inv());
  do_op(); check_live();
  __CPROVER_assert(pool_inv(), "C19 pool invariant is inductive");
#elif defined(H_TL_CLEAR_NEW)
  /* after clear it behaves as new: same slot sequence as a fresh pool */
  static TLT a, b; K(init)(&a); K(init)(&b);
  unsigned n = nondet_uchar();
  __CPROVER_assume(n <= CAP);
  for (unsigned i = 0; i < CAP; i++) if (i < n) K(emplace)(&a, i, i, 0);
  unsigned r = nondet_uchar();
  if (r < n) K(remove)(&a, r);
  K(clear)(&a);
  for (unsigned i = 0; i <= CAP; i++) { unsigned x = K(emplace)(&a, 7, 8, 1), y = K(emplace)(&b, 7, 8, 1); VF_OBS(x);
    __CPROVER_assert(x == y, "C19 after clear the pool hands out slots exactly like a new pool"); }
  __CPROVER_assert(K(count)(&a) == CAP, "C19 cleared pool fills to capacity");
#elif defined(H_TLP)
  /* payload flavour: contents incl. payload survive neighbours' insert/remove */
  static struct T_struct_TLP3 p; k_tlp3_init(&p);
  uint32_t pl = nondet_uint();
  unsigned o = nondet_ushort();
  unsigned d = nondet_ushort();
  unsigned a = k_tlp3_emplace(&p, o, d, 2, pl);
  unsigned b = k_tlp3_emplace_np(&p, 5, 6, 1);
  unsigned c = k_tlp3_emplace(&p, 1, 2, 0, ~pl);
  __CPROVER_assert(a != b && b != c && a != c && a < 3 && b < 3 && c < 3, "C19 distinct slots");
  __CPROVER_assert(k_tlp3_emplace_np(&p, 1, 1, 1) == INV, "C19 payload pool full");
  k_tlp3_remove(&p, b);
  unsigned b2 = k_tlp3_emplace(&p, 9, 9, 3, 77u); VF_OBS(b2);
  __CPROVER_assert(b2 == b, "C19 freed slot is reused");
  __CPROVER_assert(k_tlp3_origin(&p, a) == o && k_tlp3_dest(&p, a) == d && k_tlp3_type(&p, a) == 2 && k_tlp3_has_payload(&p, a) && k_tlp3_payload(&p, a) == pl, "C19 payload item intact");
  __CPROVER_assert(k_tlp3_has_payload(&p, c) && k_tlp3_payload(&p, c) == ~pl && k_tlp3_payload(&p, b2) == 77u, "C19 payloads do not mix");
  k_tlp3_remove(&p, b2); unsigned b3 = k_tlp3_emplace_np(&p, 4, 4, 4);
  __CPROVER_assert(b3 == b && !k_tlp3_has_payload(&p, b3), "C19 a recycled slot without payload exposes none");
#elif defined(H_DA)
  /* bounded array: append / bulk append / copy / clear against a ghost sequence */
  static struct T_struct_DA4 a, c; static struct T_struct_DA2 b; k_da4_init(&a); k_da4_init(&c); k_da2_init(&b);
  uint16_t go[4], gd[4]; uint8_t gt[4]; unsigned n = 0;
  unsigned na = nondet_uchar();
  unsigned nb = nondet_uchar();
  __CPROVER_assume(na <= 2 && nb <= 2);
  for (unsigned i = 0; i < 2; i++) if (i < na) {
    unsigned o = nondet_ushort();
    unsigned d = nondet_ushort();
    unsigned t = nondet_uchar();
    unsigned idx = k_da4_emplace(&a, o, d, t); __CPROVER_assert(idx == n, "C19 array append returns the insertion index");
    go[n] = o; gd[n] = d; gt[n] = t; n++; }
  for (unsigned i = 0; i < 2; i++) if (i < nb) {
    unsigned o = nondet_ushort();
    unsigned d = nondet_ushort();
    unsigned t = nondet_uchar();
    k_da2_emplace(&b, o, d, t); go[n] = o; gd[n] = d; gt[n] = t; n++; }
  k_da4_append2(&a, &b);
  __CPROVER_assert(k_da4_count(&a) == n && k_da4_empty(&a) == (n == 0), "C19 array count after bulk append");
  for (unsigned i = 0; i < 4; i++) if (i < n) __CPROVER_assert(k_da4_origin(&a, i) == go[i] && k_da4_dest(&a, i) == gd[i] && k_da4_type(&a, i) == gt[i], "C19 array preserves insertion order and contents");
  k_da4_emplace(&c, 1, 1, 1); k_da4_copy(&c, &a);
  __CPROVER_assert(k_da4_count(&c) == n, "C19 array copy: count");
  for (unsigned i = 0; i < 4; i++) if (i < n) __CPROVER_assert(k_da4_origin(&c, i) == go[i] && k_da4_dest(&c, i) == gd[i] && k_da4_type(&c, i) == gt[i], "C19 array copy: contents");
  unsigned s = 0, k = 1; for (unsigned i = 0; i < 4; i++) if (i < n) { s += k * (gd[i] + 1u); k *= 7; }
  VF_OBS(s);
  __CPROVER_assert(k_da4_iter_sum(&c) == s, "C19 array iteration visits exactly the stored items in order");
  k_da4_clear(&a);
  __CPROVER_assert(k_da4_count(&a) == 0 && k_da4_empty(&a) && k_da4_count(&c) == n, "C19 array clear");
  k_da4_append4(&a, &c);
  __CPROVER_assert(k_da4_count(&a) == n, "C19 array reusable after clear");
  for (unsigned i = 0; i < 4; i++) if (i < n) __CPROVER_assert(k_da4_dest(&a, i) == gd[i], "C19 array contents after clear + bulk append");
#elif defined(H_SA)
  static struct T_struct_SA5 a, b; k_sa5_init(&a);
  unsigned f = nondet_uchar();
  k_sa5_init_fill(&b, f);
  for (unsigned i = 0; i < 5; i++) __CPROVER_assert(*k_sa5_at(&b, i) == f, "C19 static array fill constructor");
  __CPROVER_assert(k_sa5_empty(&b) == (f == 0xff), "C19 static array empty() iff all items are the filler");
  unsigned i = nondet_uchar();
  unsigned v = nondet_uchar();
  __CPROVER_assume(i < 5);
  k_sa5_fill(&a, f);
  __CPROVER_assert(!k_sa5_ne(&a, &b), "C19 static arrays with equal contents compare equal");
  *k_sa5_at(&a, i) = v; VF_OBS(v);
  __CPROVER_assert(k_sa5_ne(&a, &b) == (v != f), "C19 static array != detects a single differing item at any index");
  k_sa5_clear(&a);
  __CPROVER_assert(k_sa5_empty(&a), "C19 static array empty after clear");
  for (unsigned j = 0; j < 5; j++) __CPROVER_assert(*k_sa5_at(&a, j) == 0xff, "C19 static array clear writes the filler");
#else
#error "no case"
#endif
  END;
  return 0;
}
