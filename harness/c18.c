/* C18 harness: bit arrays as sets of indices (ghost uint64 mask), sub-range views, bit streams. */
#include "vf_native.h"
#if defined(VF_NATIVE) && !defined(VF_TRANSLATED)
#include VF_TYPES
#else
#include VF_FIXTURE
#endif
#ifdef WITNESS
#define END __CPROVER_assert(0, "witness: end of harness reachable")
#else
#define END ((void)0)
#endif
#define CAT_(a, b, c) a##b##c
#define CAT(a, b, c) CAT_(a, b, c)

#if defined(H_BA_OPS) || defined(H_BA_WHOLE) || defined(H_BA_VIEW)
#define K(n) CAT(k_ba, N, _##n)
#define BAT CAT(struct T_struct_BA, N, )
#define UNITS ((N + 7) / 8)
#define ALL ((N) >= 64 ? ~0ULL : ((1ULL << (N)) - 1))
static BAT a, b; static uint64_t g, h;
static void agree(void) {
  for (unsigned j = 0; j < N; j++) __CPROVER_assert(K(get)(&a, j) == (int)((g >> j) & 1), "C18 get(j) reads exactly index j of the set");
  __CPROVER_assert(K(empty)(&a) == (g == 0), "C18 empty() iff no index is set");
}
#endif

int main(void) {
#if defined(H_BA_OPS)
  /* NOPS symbolic single-index operations (dynamic and static index forms) from the empty set */
  K(init)(&a); g = 0; agree();
  for (unsigned s = 0; s < NOPS; s++) {
    unsigned op = nondet_uchar();
    unsigned i = nondet_uchar();
    __CPROVER_assume(op < 6 && i < N);
    switch (op) {
    case 0: K(set)(&a, i); g |= 1ULL << i; break;
    case 1: K(clear)(&a, i); g &= ~(1ULL << i); break;
    case 2: K(sset0)(&a); g |= 1ULL; break;
    case 3: K(sclear0)(&a); g &= ~1ULL; break;
    case 4: K(ssetL)(&a); g |= 1ULL << (N - 1); break;
    default: K(sclearL)(&a); g &= ~(1ULL << (N - 1)); break;
    }
    VF_OBS(g); agree();
    __CPROVER_assert(K(sget0)(&a) == (int)(g & 1) && K(sgetL)(&a) == (int)((g >> (N - 1)) & 1), "C18 static-index get");
  }
#elif defined(H_BA_WHOLE)
  /* whole-array operations on two arbitrary sets built by single-index sets */
  K(init)(&a); K(init)(&b);
  g = nondet_u64();
  h = nondet_u64();
  __CPROVER_assume((g & ~ALL) == 0 && (h & ~ALL) == 0);
  for (unsigned j = 0; j < N; j++) { if ((g >> j) & 1) K(set)(&a, j); if ((h >> j) & 1) K(set)(&b, j); }
  VF_OBS(g ^ h); agree();
  __CPROVER_assert(K(ne)(&a, &b) == (g != h), "C18 operator != is set inequality");
  __CPROVER_assert(K(and)(&a, &b) == ((g & h) != 0), "C18 boolean operator & is 'the two sets intersect'");
  K(andeq)(&a, &b); g &= h; agree();
  __CPROVER_assert(K(ne)(&a, &b) == (g != h), "C18 operator != after &=");
  K(clear_all)(&a); g = 0; agree();
  K(set_all)(&a); g = ALL; agree();
  __CPROVER_assert(K(ne)(&a, &b) == (g != h), "C18 operator != against a whole-array set()");
  for (unsigned j = 0; j < N; j++) K(clear)(&a, j);
  g = 0; agree();
#elif defined(H_BA_VIEW)
  /* a view (unit u, width w) addresses exactly bits [8u, 8u+w) */
  K(init)(&a);
  g = nondet_u64();
  __CPROVER_assume((g & ~ALL) == 0);
  for (unsigned j = 0; j < N; j++) if ((g >> j) & 1) K(set)(&a, j);
  unsigned u = nondet_uchar();
  unsigned w = nondet_uchar();
  __CPROVER_assume(w >= 1 && u < UNITS && 8 * u + w <= N);
#ifdef KF_VIEW_BOOL_OOB
  /* known finding (C11's subject): operator bool of a view whose width is a multiple of 8 and which ends at the end
     of the storage reads one byte past it; functional runs exclude that one shape */
  __CPROVER_assume(!(w % 8 == 0 && u + w / 8 == UNITS));
#endif
  uint64_t range = (w >= 64 ? ~0ULL : ((1ULL << w) - 1)) << (8 * u);
  VF_OBS(g); VF_OBS(u * 64 + w);
  __CPROVER_assert(K(v_bool)(&a, u, w) == ((g & range) != 0), "C18 view operator bool reports emptiness of exactly its range");
  __CPROVER_assert(K(cv_bool)(&a, u, w) == ((g & range) != 0), "C18 const view operator bool reports emptiness of exactly its range");
  unsigned i = nondet_uchar();
  __CPROVER_assume(i < w);
  __CPROVER_assert(K(v_get)(&a, u, w, i) == (int)((g >> (8 * u + i)) & 1) && K(cv_get)(&a, u, w, i) == (int)((g >> (8 * u + i)) & 1), "C18 view get(i) reads index 8u+i");
  K(v_set)(&a, u, w, i); g |= 1ULL << (8 * u + i); agree();
  unsigned k = nondet_uchar();
  __CPROVER_assume(k < w);
  K(v_clear)(&a, u, w, k); g &= ~(1ULL << (8 * u + k)); agree();
  K(v_clear_all)(&a, u, w);
  /* bits of the view's last storage unit beyond its width are padding of the view: don't-care */
  uint64_t pad = ((w + 7) / 8 * 8 >= 64 ? ~0ULL : ((1ULL << ((w + 7) / 8 * 8)) - 1)) << (8 * u);
  for (unsigned j = 0; j < N; j++) {
    if ((range >> j) & 1) __CPROVER_assert(!K(get)(&a, j), "C18 view clear() clears its range");
    else if (!((pad >> j) & 1)) __CPROVER_assert(K(get)(&a, j) == (int)((g >> j) & 1), "C18 view clear() leaves everything outside the view alone");
  }
#elif defined(H_BA_SVIEW)
  static struct T_struct_BA24 a; k_ba24_init(&a);
  uint64_t g = nondet_u64();
  __CPROVER_assume((g >> 24) == 0);
  for (unsigned j = 0; j < 24; j++) if ((g >> j) & 1) k_ba24_set(&a, j);
  VF_OBS(g);
  __CPROVER_assert(k_ba24_sv_bool_1_8(&a) == (((g >> 8) & 0xff) != 0), "C18 static view <1,8> emptiness");
  __CPROVER_assert(k_ba24_sv_bool_1_5(&a) == (((g >> 8) & 0x1f) != 0), "C18 static view <1,5> emptiness");
  __CPROVER_assert(k_ba24_scv_bool_0_13(&a) == ((g & 0x1fff) != 0), "C18 static const view <0,13> emptiness");
  __CPROVER_assert(k_ba24_sv_get3_1_8(&a) == (int)((g >> 11) & 1), "C18 static view static get<3>");
  k_ba24_sv_set3_1_8(&a); g |= 1ULL << 11;
  for (unsigned j = 0; j < 24; j++) __CPROVER_assert(k_ba24_get(&a, j) == (int)((g >> j) & 1), "C18 static view set<3> touches index 11 only");
  k_ba24_sv_clear3_1_8(&a); g &= ~(1ULL << 11);
  for (unsigned j = 0; j < 24; j++) __CPROVER_assert(k_ba24_get(&a, j) == (int)((g >> j) & 1), "C18 static view clear<3> touches index 11 only");
#elif defined(H_STREAM)
  /* compile-time: SN buffer bits, PAD alignment (0..7), W1..W4 widths (W3, W4 optional); values symbolic */
#define SB CAT(struct T_struct_SB, SN, )
#define WS CAT(struct T_struct_WS, SN, )
#define RS CAT(struct T_struct_RS, SN, )
#define KS(n) CAT(k_sb, SN, _##n)
#define KW(n) CAT(k_ws, SN, _##n)
#define KR(n) CAT(k_rs, SN, _##n)
#define FITS(v, w) ((w) >= 32 || ((v) >> (w)) == 0)
  static SB buf, buf2; static WS ws, ws2; static RS rs;
  KS(init)(&buf); KS(init)(&buf2);
  unsigned nb = KS(bytes)();
  /* the write stream's constructor must clear whatever the buffer held */
  unsigned char* d = KS(data)(&buf); unsigned char* d2 = KS(data)(&buf2);
  for (unsigned i = 0; i < (SN + 7) / 8; i++) {
    d[i] = nondet_uchar();
    d2[i] = nondet_uchar();
  }
  KW(init)(&ws, &buf); KW(init)(&ws2, &buf2);
  unsigned total = 0;
#if PAD > 0
  CAT(k_ws, SN, CAT(_w, PAD, ))(&ws, 0); CAT(k_ws, SN, CAT(_w, PAD, ))(&ws2, 0); total += PAD;
#endif
  uint32_t v1 = nondet_uint();
  uint32_t x1 = nondet_uint();
  __CPROVER_assume(FITS(v1, W1) && FITS(x1, W1));
  CAT(k_ws, SN, CAT(_w, W1, ))(&ws, v1); CAT(k_ws, SN, CAT(_w, W1, ))(&ws2, x1); total += W1;
  uint32_t v2 = nondet_uint();
  uint32_t x2 = nondet_uint();
  __CPROVER_assume(FITS(v2, W2) && FITS(x2, W2));
  CAT(k_ws, SN, CAT(_w, W2, ))(&ws, v2); CAT(k_ws, SN, CAT(_w, W2, ))(&ws2, x2); total += W2;
  int same = v1 == x1 && v2 == x2;
#ifdef W3
  uint32_t v3 = nondet_uint();
  uint32_t x3 = nondet_uint();
  __CPROVER_assume(FITS(v3, W3) && FITS(x3, W3));
  CAT(k_ws, SN, CAT(_w, W3, ))(&ws, v3); CAT(k_ws, SN, CAT(_w, W3, ))(&ws2, x3); total += W3; same = same && v3 == x3;
#endif
#ifdef W4
  uint32_t v4 = nondet_uint();
  uint32_t x4 = nondet_uint();
  __CPROVER_assume(FITS(v4, W4) && FITS(x4, W4));
  CAT(k_ws, SN, CAT(_w, W4, ))(&ws, v4); CAT(k_ws, SN, CAT(_w, W4, ))(&ws2, x4); total += W4; same = same && v4 == x4;
#endif
  VF_OBS(v1 ^ v2); VF_OBS(d[0]);
  __CPROVER_assert(KW(cursor)(&ws) == total, "C18 write cursor = sum of widths");
  /* untouched bits stay zero (incl. whatever the buffer held before the stream was attached) */
  for (unsigned i = 0; i < (SN + 7) / 8; i++) {
    if (8 * i >= total) __CPROVER_assert(d[i] == 0, "C18 bytes beyond the cursor stay zero");
    else if (8 * i + 8 > total) __CPROVER_assert((d[i] >> (total - 8 * i)) == 0, "C18 bits beyond the cursor stay zero");
  }
  KR(init)(&rs, &buf);
#if PAD > 0
  __CPROVER_assert(CAT(k_rs, SN, CAT(_r, PAD, ))(&rs) == 0, "C18 alignment padding reads back 0");
#endif
  __CPROVER_assert(CAT(k_rs, SN, CAT(_r, W1, ))(&rs) == v1, "C18 item 1 reads back");
  __CPROVER_assert(CAT(k_rs, SN, CAT(_r, W2, ))(&rs) == v2, "C18 item 2 reads back");
#ifdef W3
  __CPROVER_assert(CAT(k_rs, SN, CAT(_r, W3, ))(&rs) == v3, "C18 item 3 reads back");
#endif
#ifdef W4
  __CPROVER_assert(CAT(k_rs, SN, CAT(_r, W4, ))(&rs) == v4, "C18 item 4 reads back");
#endif
  __CPROVER_assert(KR(cursor)(&rs) == total, "C18 read cursor = sum of widths");
  __CPROVER_assert(KS(eq)(&buf, &buf2) == same && KS(ne)(&buf, &buf2) == !same, "C18 buffer ==/!= is equality of contents");
#else
#error "no case"
#endif
  END;
  return 0;
}
