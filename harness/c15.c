/* C15 product program: the SAME machine structure compiled under two configurations (A = base, B = base + one optional
 * feature, or the other header flavour), both translated with symbol prefixes A_/B_ and linked into this harness.
 * One symbolic pre-configuration is written into both instances, one API call runs on each, the callbacks of both
 * runs receive the same answer for the same (state, callback): the callback sequences and the resulting
 * configurations must coincide.  By induction on steps they then coincide forever. */
#include "vf_native.h"
#include VF_TABLES
#if defined(VF_NATIVE) && !defined(VF_TRANSLATED)
#include VF_TYPES_A
#include VF_TYPES_B
#else
#include VF_FIXTURE_A
#include VF_FIXTURE_B
#endif
#ifdef WITNESS
#define END __CPROVER_assert(0, "witness: end of harness reachable")
#else
#define END ((void)0)
#endif
#define INVALID 255
#ifndef CB_KINDS
#define CB_KINDS 0x9e
#endif
static struct A_T_struct_A_ns__VfInst ia; static struct B_T_struct_B_ns__VfInst ib;
#ifdef A_HAVE_LOGGER
static struct A_T_struct_A_ns__VfLog lga;
#endif
#ifdef B_HAVE_LOGGER
static struct B_T_struct_B_ns__VfLog lgb;
#endif
static int phase, which, budget, seq[2][64], seqn[2];
static int dec_fix[NS][20]; static _Bool dec_set[NS][20];
static uint8_t sel_val[NC];

static int m_active(const uint8_t* a, int s) {
  int x = s;
  for (int k = 0; k <= MAXDEPTH; k++) { int p = st_parent[x]; if (p < 0) break; if (st_kind[p] == 1 && a[st_compo[p]] != st_prong[x]) return 0; x = p; }
  return a[0] != INVALID;
}
static int inv_forks(const uint8_t* a, const uint8_t* r) {
  for (int c = 0; c < NC; c++) {
    if (m_active(a, co_head[c])) { if (a[c] >= co_width[c]) return 0; } else if (a[c] != INVALID) return 0;
    if (!(r[c] == INVALID || r[c] < co_width[c])) return 0;
  }
  return a[0] != INVALID;
}
static int decide(int s, int m) {
  if (!phase) return 0;
  if (dec_set[s][m & 31]) return dec_fix[s][m & 31];
  int d = nondet_int();
  dec_set[s][m & 31] = 1; dec_fix[s][m & 31] = d;
  if (d == 0) return 0;
  int guard = (m & 31) == 4 || (m & 31) == 14;
  if (d == -1) { __CPROVER_assume(guard); return -1; }
#ifdef WITH_PLAN
  if (d == 0x1000 || d == 0x2000) { __CPROVER_assume((m & 31) == 8); return d; }    /* succeed() / fail() from update() */
#endif
  int kind = (d >> 8) & 0xf, dest = d & 0xff;
  __CPROVER_assume((d & ~0xfff) == 0 && kind >= 1 && kind <= 7 && ((CB_KINDS >> kind) & 1) && dest < NS);
  __CPROVER_assume(budget > 0); budget--;
  return d;
}
uint32_t vf_cb(uint32_t s, uint32_t m, uint8_t* self) {
  if (!phase) return 0;
  if (seqn[which] < 64) seq[which][seqn[which]] = (int)(s * 32 + (m & 31));
  seqn[which]++; VF_OBS(s * 64 + m);
  /* budget is per run: the second run replays the decisions of the first for the callbacks both runs make */
  return (uint32_t)decide((int)s, (int)m);
}
uint32_t vf_select(uint32_t s) { return sel_val[st_compo[s]]; }
uint32_t vf_rank(uint32_t s) { return 0; }
float vf_utility(uint32_t s) { return 1.0f; }
float vf_rng(void) { return 0.5f; }
uint32_t vf_payload(uint32_t s, uint32_t m) { return 7; }
void vf_log(uint32_t k, uint32_t a, uint32_t b, uint32_t c) { }
void vf_obs(uint32_t w, uint32_t a, uint32_t b, uint8_t* p) { }
void hfsm2_verif_break(void) { }

#define IMMA_(k) A_vf_imm##k
#define IMMA(k) IMMA_(k)
#define IMMB_(k) B_vf_imm##k
#define IMMB(k) IMMB_(k)

int main(void) {
#ifdef A_HAVE_LOGGER
  A_vf_logger_construct(&lga); A_vf_construct(&ia, LOGGER_ATTACHED_A ? &lga : 0);
#else
  A_vf_construct(&ia);
#endif
#ifdef B_HAVE_LOGGER
  B_vf_logger_construct(&lgb); B_vf_construct(&ib, LOGGER_ATTACHED_B ? &lgb : 0);
#else
  B_vf_construct(&ib);
#endif
  /* both constructed instances agree (first activation, callbacks silent) */
  uint8_t *aa = A_vf_compo_active(&ia), *ra = A_vf_compo_resumable(&ia), *ab = B_vf_compo_active(&ib), *rb = B_vf_compo_resumable(&ib);
  for (int c = 0; c < NC; c++) __CPROVER_assert(aa[c] == ab[c] && ra[c] == rb[c], "C15 both configurations activate identically");
  for (int c = 0; c < NC; c++) {
    uint8_t va = nondet_uchar();
    uint8_t vr = nondet_uchar();
    aa[c] = va; ab[c] = va; ra[c] = vr; rb[c] = vr;
    sel_val[c] = nondet_uchar();
    __CPROVER_assume(sel_val[c] < co_width[c]);
  }
  __CPROVER_assume(inv_forks(aa, ra));
#ifdef WITH_PLAN
  /* both configurations have plans enabled: the same symbolic plan (<= 2 tasks on the root region, cyclic tasks
     included) is appended to both */
  { unsigned np = nondet_uchar();
    __CPROVER_assume(np <= 2);
    for (unsigned i = 0; i < 2; i++) if (i < np) {
      unsigned o = nondet_uchar();
      unsigned d = nondet_uchar();
      unsigned k = nondet_uchar();
      __CPROVER_assume(o >= 1 && o < NS && d >= 1 && d < NS && k >= 1 && k <= 3);
      int ra_ = A_vf_plan_append(&ia, 0, o, d, k), rb_ = B_vf_plan_append(&ib, 0, o, d, k);
      __CPROVER_assert(ra_ == rb_, "C15 append succeeds in both configurations alike");
    } }
#endif
  phase = 1;
#if ENTRY == 1
  budget = CB_BUDGET; which = 0; A_vf_update(&ia);
  budget = CB_BUDGET; which = 1; B_vf_update(&ib);
#elif ENTRY == 2
  unsigned dest = nondet_uchar();
  __CPROVER_assume(dest < NS);
  budget = CB_BUDGET; which = 0; IMMA(KIND)(&ia, dest);
  budget = CB_BUDGET; which = 1; IMMB(KIND)(&ib, dest);
#elif ENTRY == 20
  /* update() without its final processRequest() (both sides have plans): the update phases and the plan executor run,
     the requests they issue are compared in the queue */
  budget = CB_BUDGET; which = 0; A_vf_update_plans_only(&ia);
  budget = CB_BUDGET; which = 1; B_vf_update_plans_only(&ib);
#elif ENTRY == 4
  which = 0; A_vf_reset(&ia); which = 1; B_vf_reset(&ib);
#else
#error "ENTRY"
#endif
  phase = 0;
  END;
  __CPROVER_assert(seqn[0] == seqn[1], "C15 both configurations invoke the same number of callbacks");
  for (int i = 0; i < 64; i++) if (i < seqn[0] && i < seqn[1]) __CPROVER_assert(seq[0][i] == seq[1][i], "C15 both configurations invoke the same callbacks in the same order");
  for (int c = 0; c < NC; c++) __CPROVER_assert(aa[c] == ab[c] && ra[c] == rb[c], "C15 both configurations end in the same configuration");
  for (int s = 0; s < NS; s++) __CPROVER_assert(A_vf_is_active(&ia, s) == B_vf_is_active(&ib, s) && A_vf_is_resumable(&ia, s) == B_vf_is_resumable(&ib, s), "C15 both configurations report the same active/resumable states");
  __CPROVER_assert(A_vf_requests_count(&ia) == B_vf_requests_count(&ib), "C15 both configurations leave the same queue");
#if ENTRY == 20
  for (unsigned i = 0; i < NC; i++) if (i < A_vf_requests_count(&ia) && i < B_vf_requests_count(&ib))
    __CPROVER_assert(A_vf_request_dest(&ia, i) == B_vf_request_dest(&ib, i) && A_vf_request_type(&ia, i) == B_vf_request_type(&ib, i) && A_vf_request_origin(&ia, i) == B_vf_request_origin(&ib, i), "C15 both configurations issue the same plan transitions in the same order");
#endif
#ifdef WITH_PLAN
  __CPROVER_assert(A_vf_plan_len(&ia, 0) == B_vf_plan_len(&ib, 0) && A_vf_task_count(&ia) == B_vf_task_count(&ib), "C15 both configurations hold the same plan afterwards");
  for (int s = 0; s < NS; s++) __CPROVER_assert(A_vf_task_success(&ia, s) == B_vf_task_success(&ib, s), "C15 both configurations hold the same task marks afterwards");
#endif
  VF_OBS(aa[0]);
  return 0;
}
