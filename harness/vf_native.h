/* Native twin of the CBMC primitives: the SAME harness source is compiled natively and linked against the
 * real (g++/clang++-built) fixture object to replay solver counterexamples, or against the translated C for
 * translation validation.  nondet_*() pop values from VF_INPUTS (replay) or a seeded generator (VF_SEED). */
#ifndef VF_NATIVE_H
#define VF_NATIVE_H
#include <stdint.h>
#include <stddef.h>
#include <string.h>
#ifdef VF_NATIVE
void vf_assume_(int c, const char* txt, int line);
void vf_assert_(int c, const char* txt, int line);
void vf_mix(uint64_t x);
#define __CPROVER_assume(c) vf_assume_(!!(c), #c, __LINE__)
#define __CPROVER_assert(c, t) vf_assert_(!!(c), t, __LINE__)
#define VF_OBS(x) vf_mix((uint64_t)(x))
#define main vf_harness_main
#else
#define VF_OBS(x) ((void)0)
#endif
/* coverage goals (vacuity guard finer than the end-of-harness witness): with -DCOVERAGE the case is run under
   `cbmc --cover cover`; every goal must be SATISFIED, i.e. the harness really reaches the situation it claims to cover */
#if defined(COVERAGE) && !defined(VF_NATIVE)
#define COVER(c) __CPROVER_cover(c)
#else
#define COVER(c) ((void)0)
#endif
unsigned char nondet_uchar(void); unsigned short nondet_ushort(void); unsigned nondet_uint(void); int nondet_int(void);
uint64_t nondet_u64(void); signed char nondet_schar(void); float nondet_float(void); double nondet_double(void);
_Bool nondet_bool(void);
#endif
