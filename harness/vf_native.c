#include <stdio.h>
#include <stdlib.h>
#include <stdint.h>
#include <string.h>
static const char* inp; static int replay = -1; static uint64_t rng; static uint64_t h = 1469598103934665603ULL;
static int nfail; static unsigned long npop;
void vf_mix(uint64_t x) { h = (h ^ x) * 1099511628211ULL; }
static void fin(int rc) { printf("HASH=%016llx POPS=%lu\n", (unsigned long long)h, npop); fflush(stdout); _Exit(rc); }
static void init(void) {
  if (replay >= 0) return;
  inp = getenv("VF_INPUTS");
  if (inp) { replay = 1; return; }
  replay = 0; const char* s = getenv("VF_SEED"); rng = 88172645463325252ULL ^ ((s ? strtoull(s, 0, 10) : 0) * 0x9E3779B97F4A7C15ULL);
  for (int i = 0; i < 4; ++i) { rng ^= rng << 13; rng ^= rng >> 7; rng ^= rng << 17; }
}
static uint64_t nx(void) { rng ^= rng << 13; rng ^= rng >> 7; rng ^= rng << 17; return rng; }
static uint64_t pop(int bits) {
  init(); npop++;
  uint64_t v;
  if (replay) {
    while (*inp == ',') inp++;
    if (!*inp) { printf("REPLAY-EXHAUSTED\n"); fin(4); }
    char* e; v = strtoull(inp, &e, 10); inp = e;
  } else {
    uint64_t r = nx();
    switch (r & 7) { case 0: case 1: case 2: v = (r >> 8) & 7; break; case 3: case 4: v = (r >> 8) & 31; break; case 5: v = ~0ULL; break; case 6: v = (r >> 8) & 0x7ff; break; default: v = nx(); }
  }
  if (bits < 64) v &= (1ULL << bits) - 1;
  vf_mix(v); return v;
}
unsigned char nondet_uchar(void) { return (unsigned char)pop(8); }
signed char nondet_schar(void) { return (signed char)pop(8); }
unsigned short nondet_ushort(void) { return (unsigned short)pop(16); }
unsigned nondet_uint(void) { return (unsigned)pop(32); }
int nondet_int(void) { return (int)pop(32); }
uint64_t nondet_u64(void) { return pop(64); }
_Bool nondet_bool(void) { return pop(1) & 1; }
float nondet_float(void) {
  init(); uint32_t b;
  if (replay) b = (uint32_t)pop(32);
  else { static const float tab[] = {0.f, 0.25f, 0.5f, 0.75f, 1.f, 1.25f, 1.5f, 1.75f, 0.99999994f, 3.f, 1e-3f, 100.f}; uint64_t r = nx(); npop++;
    if (r & 3) { float f = tab[(r >> 8) % 12]; memcpy(&b, &f, 4); } else b = (uint32_t)(r >> 16); vf_mix(b); }
  float f; memcpy(&f, &b, 4); return f; }
double nondet_double(void) { uint64_t b = pop(64); double d; memcpy(&d, &b, 8); return d; }
void vf_assume_(int c, const char* txt, int line) { if (!c) { printf("ASSUME-FALSE: line %d: %s\n", line, txt); fin(3); } }
void vf_assert_(int c, const char* txt, int line) { vf_mix(c); if (!c) { nfail++; printf("ASSERT-FAIL: %s\n", txt); } }
int vf_harness_main(void);
int main(void) { init(); vf_harness_main(); printf("DONE fails=%d\n", nfail); fin(nfail ? 10 : 0); return 0; }
