/* C20 harness: bundled generators vs reference implementations written from the published algorithms
 * (splitmix64.c, the "splitmix32"/murmur3-finaliser post, xoshiro256plus.c, xoshiro128plus.c,
 *  xoshiro256starstar.c, xoshiro128starstar.c by Blackman & Vigna).  One case per -DH_<case>. */
#include "vf_native.h"
#if defined(VF_NATIVE) && !defined(VF_TRANSLATED)
#include VF_TYPES
#else
#include VF_FIXTURE
#endif

/* ---- reference implementations ---- */
static uint64_t r_rotl64(uint64_t x, int k) { return (x << k) | (x >> (64 - k)); }
static uint32_t r_rotl32(uint32_t x, int k) { return (x << k) | (x >> (32 - k)); }
static uint64_t r_splitmix64(uint64_t* x) { uint64_t z = (*x += 0x9e3779b97f4a7c15ULL); z = (z ^ (z >> 30)) * 0xbf58476d1ce4e5b9ULL; z = (z ^ (z >> 27)) * 0x94d049bb133111ebULL; return z ^ (z >> 31); }
static uint32_t r_splitmix32(uint32_t* x) { uint32_t z = (*x += 0x9e3779b9U); z = (z ^ (z >> 16)) * 0x85ebca6bU; z = (z ^ (z >> 13)) * 0xc2b2ae35U; return z ^ (z >> 16); }
static void r_adv256(uint64_t* s) { uint64_t t = s[1] << 17; s[2] ^= s[0]; s[3] ^= s[1]; s[1] ^= s[2]; s[0] ^= s[3]; s[2] ^= t; s[3] = r_rotl64(s[3], 45); }
static void r_adv128(uint32_t* s) { uint32_t t = s[1] << 9; s[2] ^= s[0]; s[3] ^= s[1]; s[1] ^= s[2]; s[0] ^= s[3]; s[2] ^= t; s[3] = r_rotl32(s[3], 11); }
static uint64_t r_x256p(uint64_t* s) { uint64_t r = s[0] + s[3]; r_adv256(s); return r; }
static uint64_t r_x256ss(uint64_t* s) { uint64_t r = r_rotl64(s[1] * 5, 7) * 9; r_adv256(s); return r; }
static uint32_t r_x128p(uint32_t* s) { uint32_t r = s[0] + s[3]; r_adv128(s); return r; }
static uint32_t r_x128ss(uint32_t* s) { uint32_t r = r_rotl32(s[1] * 5, 7) * 9; r_adv128(s); return r; }
static void r_jump256(uint64_t* s) {
  static const uint64_t J[] = {0x180ec6d33cfd0abaULL, 0xd5a61266f0c9392cULL, 0xa9582618e03fc9aaULL, 0x39abdc4529b1661cULL};
  uint64_t a = 0, b = 0, c = 0, d = 0;
  for (int i = 0; i < 4; i++) for (int k = 0; k < 64; k++) { if (J[i] & (1ULL << k)) { a ^= s[0]; b ^= s[1]; c ^= s[2]; d ^= s[3]; } r_adv256(s); }
  s[0] = a; s[1] = b; s[2] = c; s[3] = d; }
static void r_jump128(uint32_t* s) {
  static const uint32_t J[] = {0x8764000bU, 0xf542d2d3U, 0x6fa035c3U, 0x77f2db5bU};
  uint32_t a = 0, b = 0, c = 0, d = 0;
  for (int i = 0; i < 4; i++) for (int k = 0; k < 32; k++) { if (J[i] & (1U << k)) { a ^= s[0]; b ^= s[1]; c ^= s[2]; d ^= s[3]; } r_adv128(s); }
  s[0] = a; s[1] = b; s[2] = c; s[3] = d; }

#ifdef WITNESS
#define END __CPROVER_assert(0, "witness: end of harness reachable")
#else
#define END ((void)0)
#endif
#define EQ4(p, q, t) __CPROVER_assert(p[0] == q[0] && p[1] == q[1] && p[2] == q[2] && p[3] == q[3], t)

int main(void) {
#if defined(H_SM8_STEP)
  static struct T_struct_SM8 o; uint64_t s = nondet_u64();
  k_sm8_ctor(&o, s); uint64_t r = s; uint64_t e = r_splitmix64(&r); uint64_t g = k_sm8_raw(&o); VF_OBS(g);
  __CPROVER_assert(g == e, "C20 splitmix64 output matches reference for every state");
  __CPROVER_assert(*k_sm8_state(&o) == r, "C20 splitmix64 state advance matches reference");
#elif defined(H_SM4_STEP)
  static struct T_struct_SM4 o; uint32_t s = nondet_uint();
  k_sm4_ctor(&o, s); uint32_t r = s; uint32_t e = r_splitmix32(&r); uint32_t g = k_sm4_raw(&o); VF_OBS(g);
  __CPROVER_assert(g == e, "C20 splitmix32 output matches reference for every state");
  __CPROVER_assert(*k_sm4_state(&o) == r, "C20 splitmix32 state advance matches reference");
#elif defined(H_SM8_NONZERO)
  static struct T_struct_SM8 o; uint64_t s = nondet_u64();
  k_sm8_ctor(&o, s); uint64_t g = k_sm8_uint(&o); VF_OBS(g);
  __CPROVER_assert(g != 0, "C20 seeding word (64) is never zero");
#elif defined(H_SM4_NONZERO)
  static struct T_struct_SM4 o; uint32_t s = nondet_uint();
  k_sm4_ctor(&o, s); uint32_t g = k_sm4_uint(&o); VF_OBS(g);
  __CPROVER_assert(g != 0, "C20 seeding word (32) is never zero");
#elif defined(H_F8_SEED)
  static struct T_struct_F8 o; uint64_t s = nondet_u64();
  k_f8_ctor_seed(&o, s); uint64_t* st = k_f8_state(&o); VF_OBS(st[0] ^ st[3]);
  __CPROVER_assert((st[0] | st[1] | st[2] | st[3]) != 0, "C20 seeded xoshiro256 state is never all-zero");
  __CPROVER_assert(st[0] != 0 && st[1] != 0 && st[2] != 0 && st[3] != 0, "C20 every seeded xoshiro256 word is non-zero");
#ifdef SEED_EQ
  uint64_t r = s, e[4];
  for (int i = 0; i < 4; i++) { do e[i] = r_splitmix64(&r); while (e[i] == 0); }
  EQ4(st, e, "C20 xoshiro256 seeding = four non-zero splitmix64 words");
#endif
#elif defined(H_F4_SEED)
  static struct T_struct_F4 o; uint32_t s = nondet_uint();
  k_f4_ctor_seed(&o, s); uint32_t* st = k_f4_state(&o); VF_OBS(st[0] ^ st[3]);
  __CPROVER_assert((st[0] | st[1] | st[2] | st[3]) != 0, "C20 seeded xoshiro128 state is never all-zero");
#ifdef SEED_EQ
  uint32_t r = s, e[4];
  for (int i = 0; i < 4; i++) { do e[i] = r_splitmix32(&r); while (e[i] == 0); }
  EQ4(st, e, "C20 xoshiro128 seeding = four non-zero splitmix32 words");
#endif
#elif defined(H_I8_SEED)
  static struct T_struct_I8 o; uint64_t s = nondet_u64();
  k_i8_ctor_seed(&o, s); uint64_t* st = k_i8_state(&o); VF_OBS(st[0] ^ st[3]);
  __CPROVER_assert((st[0] | st[1] | st[2] | st[3]) != 0, "C20 seeded xoshiro256** state is never all-zero");
#elif defined(H_I4_SEED)
  static struct T_struct_I4 o; uint32_t s = nondet_uint();
  k_i4_ctor_seed(&o, s); uint32_t* st = k_i4_state(&o); VF_OBS(st[0] ^ st[3]);
  __CPROVER_assert((st[0] | st[1] | st[2] | st[3]) != 0, "C20 seeded xoshiro128** state is never all-zero");
#elif defined(H_F8_STEP) || defined(H_I8_STEP)
  uint64_t e[4];
  e[0] = nondet_u64();
  e[1] = nondet_u64();
  e[2] = nondet_u64();
  e[3] = nondet_u64();
#ifdef H_F8_STEP
  static struct T_struct_F8 o; uint64_t* st = k_f8_state(&o); for (int i = 0; i < 4; i++) st[i] = e[i];
  uint64_t g = k_f8_u64(&o), x = r_x256p(e);
#else
  static struct T_struct_I8 o; uint64_t* st = k_i8_state(&o); for (int i = 0; i < 4; i++) st[i] = e[i];
  uint64_t g = k_i8_u64(&o), x = r_x256ss(e);
#endif
  VF_OBS(g);
  __CPROVER_assert(g == x, "C20 xoshiro256 output matches reference for every state");
  EQ4(st, e, "C20 xoshiro256 state advance matches reference");
#elif defined(H_F4_STEP) || defined(H_I4_STEP)
  uint32_t e[4];
  e[0] = nondet_uint();
  e[1] = nondet_uint();
  e[2] = nondet_uint();
  e[3] = nondet_uint();
#ifdef H_F4_STEP
  static struct T_struct_F4 o; uint32_t* st = k_f4_state(&o); for (int i = 0; i < 4; i++) st[i] = e[i];
  uint32_t g = k_f4_u32(&o), x = r_x128p(e);
#else
  static struct T_struct_I4 o; uint32_t* st = k_i4_state(&o); for (int i = 0; i < 4; i++) st[i] = e[i];
  uint32_t g = k_i4_u32(&o), x = r_x128ss(e);
#endif
  VF_OBS(g);
  __CPROVER_assert(g == x, "C20 xoshiro128 output matches reference for every state");
  EQ4(st, e, "C20 xoshiro128 state advance matches reference");
#elif defined(H_F4_U64) || defined(H_I4_U64)
  /* 32-bit flavours build a 64-bit word from two consecutive 32-bit outputs (first draw = high half, sequenced
     since the fix: commit; before it the order was the compiler's argument evaluation order and g++/clang++ disagreed,
     which the per-run translation validation against the g++ build reports) */
  uint32_t e[4];
  e[0] = nondet_uint();
  e[1] = nondet_uint();
  e[2] = nondet_uint();
  e[3] = nondet_uint();
#ifdef H_F4_U64
  static struct T_struct_F4 o; uint32_t* st = k_f4_state(&o); for (int i = 0; i < 4; i++) st[i] = e[i];
  uint64_t g = k_f4_u64(&o); uint32_t a = r_x128p(e), b = r_x128p(e);
#else
  static struct T_struct_I4 o; uint32_t* st = k_i4_state(&o); for (int i = 0; i < 4; i++) st[i] = e[i];
  uint64_t g = k_i4_u64(&o); uint32_t a = r_x128ss(e), b = r_x128ss(e);
#endif
  VF_OBS(g);
  __CPROVER_assert(g == (((uint64_t)a << 32) | b), "C20 32-bit flavour uint64 = two consecutive reference words, first draw in the high half");
  EQ4(st, e, "C20 32-bit flavour uint64 consumes exactly two steps");
#elif defined(H_F8_JUMP) || defined(H_I8_JUMP)
  uint64_t e[4];
  e[0] = nondet_u64();
  e[1] = nondet_u64();
  e[2] = nondet_u64();
  e[3] = nondet_u64();
#ifdef H_F8_JUMP
  static struct T_struct_F8 o; uint64_t* st = k_f8_state(&o); for (int i = 0; i < 4; i++) st[i] = e[i];
  k_f8_jump(&o);
#else
  static struct T_struct_I8 o; uint64_t* st = k_i8_state(&o); for (int i = 0; i < 4; i++) st[i] = e[i];
  k_i8_jump(&o);
#endif
  r_jump256(e); VF_OBS(st[0]);
  EQ4(st, e, "C20 xoshiro256 jump() matches reference for every state");
#elif defined(H_F4_JUMP) || defined(H_I4_JUMP)
  uint32_t e[4];
  e[0] = nondet_uint();
  e[1] = nondet_uint();
  e[2] = nondet_uint();
  e[3] = nondet_uint();
#ifdef H_F4_JUMP
  static struct T_struct_F4 o; uint32_t* st = k_f4_state(&o); for (int i = 0; i < 4; i++) st[i] = e[i];
  k_f4_jump(&o);
#else
  static struct T_struct_I4 o; uint32_t* st = k_i4_state(&o); for (int i = 0; i < 4; i++) st[i] = e[i];
  k_i4_jump(&o);
#endif
  r_jump128(e); VF_OBS(st[0]);
  EQ4(st, e, "C20 xoshiro128 jump() matches reference for every state");
#elif defined(H_UNIFORM32)
  uint32_t x = nondet_uint(); float f = k_uniform32(x); VF_OBS(f * 16777216.0f);
  __CPROVER_assert(f >= 0.0f && f < 1.0f, "C20 uniform(uint32) in [0,1)");
  __CPROVER_assert(f == (float)(x >> 9) * (1.0f / 8388608.0f), "C20 uniform(uint32) = top 23 bits / 2^23");
#elif defined(H_UNIFORM64)
  uint64_t x = nondet_u64(); double f = k_uniform64(x); VF_OBS(f * 4503599627370496.0);
  __CPROVER_assert(f >= 0.0 && f < 1.0, "C20 uniform(uint64) in [0,1)");
  __CPROVER_assert(f == (double)(x >> 12) * (1.0 / 4503599627370496.0), "C20 uniform(uint64) = top 52 bits / 2^52");
#elif defined(H_FLOATS8)
  static struct T_struct_F8 o; static struct T_struct_I8 p; uint64_t* st = k_f8_state(&o); uint64_t* su = k_i8_state(&p);
  st[0] = nondet_u64();
  st[1] = nondet_u64();
  st[2] = nondet_u64();
  st[3] = nondet_u64();
  for (int i = 0; i < 4; i++) su[i] = st[i];
  float a = k_f8_f32(&o); double b = k_f8_f64(&o); float c = k_f8_next(&o); float d = k_i8_f32(&p); double e = k_i8_f64(&p);
  VF_OBS(a * 1e6f); VF_OBS(b * 1e6);
  __CPROVER_assert(a >= 0.0f && a < 1.0f && c >= 0.0f && c < 1.0f && d >= 0.0f && d < 1.0f, "C20 64-bit generators: every float in [0,1)");
  __CPROVER_assert(b >= 0.0 && b < 1.0 && e >= 0.0 && e < 1.0, "C20 64-bit generators: every double in [0,1)");
#elif defined(H_FLOATS4)
  static struct T_struct_F4 o; static struct T_struct_I4 p; uint32_t* st = k_f4_state(&o); uint32_t* su = k_i4_state(&p);
  st[0] = nondet_uint();
  st[1] = nondet_uint();
  st[2] = nondet_uint();
  st[3] = nondet_uint();
  for (int i = 0; i < 4; i++) su[i] = st[i];
  float a = k_f4_f32(&o); double b = k_f4_f64(&o); float c = k_f4_next(&o); float d = k_i4_f32(&p); double e = k_i4_f64(&p);
  VF_OBS(a * 1e6f); VF_OBS(b * 1e6);
  __CPROVER_assert(a >= 0.0f && a < 1.0f && c >= 0.0f && c < 1.0f && d >= 0.0f && d < 1.0f, "C20 32-bit generators: every float in [0,1)");
  __CPROVER_assert(b >= 0.0 && b < 1.0 && e >= 0.0 && e < 1.0, "C20 32-bit generators: every double in [0,1)");
#elif defined(H_RNGT_DET)
  /* the machine's built-in generator: same seed => same state and same first number, whatever the storage held;
     default construction = seed 0 */
  struct T_struct_RF a, b;
  uint64_t* sa = k_rf_state(&a); uint64_t* sb = k_rf_state(&b);
  sa[0] = nondet_u64();
  sa[1] = nondet_u64();
  sa[2] = nondet_u64();
  sa[3] = nondet_u64();
  sb[0] = nondet_u64();
  sb[1] = nondet_u64();
  sb[2] = nondet_u64();
  sb[3] = nondet_u64();
#ifdef SEED_CONST
  uint64_t s = SEED_CONST;   /* seed concrete (multipliers fold), prior storage content symbolic */
#else
  uint64_t s = nondet_u64();
#endif
  k_rf_ctor_seed(&a, s); k_rf_ctor_seed(&b, s);
  EQ4(sa, sb, "C20 RNGT<float>: state is a function of the seed only");
  float x = k_rf_next(&a), y = k_rf_next(&b); VF_OBS(x * 1e6f);
  __CPROVER_assert(x == y && x >= 0.0f && x < 1.0f, "C20 RNGT<float>: same seed => same number in [0,1)");
  uint64_t e[4]; for (int i = 0; i < 4; i++) e[i] = sa[i];
  k_rf_ctor_def(&a); k_rf_ctor_seed(&b, 0);
  EQ4(sa, sb, "C20 RNGT<float>: default construction = seed 0");
#else
#error "no case selected"
#endif
  END;
  return 0;
}
