"""C11 No API sequence corrupts memory, triggers undefined behaviour or allocates"""
from props.fsmlib import *

ALLOWED_EXTERNALS = {'vf_cb', 'vf_select', 'vf_rank', 'vf_utility', 'vf_rng', 'vf_payload', 'vf_log', 'vf_obs', 'hfsm2_verif_break',
                     '__cxa_pure_virtual', '_ZTVN10__cxxabiv117__class_type_infoE', '_ZTVN10__cxxabiv120__si_class_type_infoE', '_ZTVN10__cxxabiv121__vmi_class_type_infoE'}

def cases(tier):
    L = []; fxs = []
    fams = ['f5'] if tier == 'quick' else ['f5', 'foroot', 'f3w', 'fsel', 'fo8', 'f10']
    T = 1 if tier == 'quick' else 3
    for fam in fams:
        o = dict(sublimit=2, features=['TRANSITION_HISTORY'], callbacks=['guard', 'life', 'update1', 'select'], act=['update'] if tier == 'quick' else ['guard', 'update'], kinds=0x9e)
        fx = fixture('C11', fam, o); fxs.append(fx)
        nc = fx['T'].nc
        base = ['P_C11', 'GUARD_BAND', 'CB_KINDS=0x9e']
        kw = dict(checks='std', timeout=1200 * T, unwind_extra=[(r'^main\.', 1030)])
        # callbacks may issue MORE requests than the queue holds (no budget assumption beyond NC+2)
        L.append(fsm_case('C11', fx, 'update_burst', base + ['ENTRY=1', 'CB_BUDGET=%d' % (nc + 2)], witness=True, budget=nc, **kw))
        if tier == 'thorough':
            L.append(fsm_case('C11', fx, 'imm1', base + ['ENTRY=2', 'KIND=1', 'CB_BUDGET=2'], witness=False, **kw))
            L.append(fsm_case('C11', fx, 'imm4', base + ['ENTRY=2', 'KIND=4', 'CB_BUDGET=1'], witness=False, **kw))
        # external burst beyond the queue capacity, then update()
        L.append(fsm_case('C11', fx, 'queue_overflow', base + ['ENTRY=3', 'NREQ=%d' % (nc + 2), 'EXT_KINDS=0x9e', 'CB_BUDGET=0'], witness=True, nreq=nc, **kw))
        if tier == 'thorough': L.append(fsm_case('C11', fx, 'reset', base + ['ENTRY=4', 'CB_BUDGET=0'], witness=False, **kw))
        # replayTransitions() with histories of any length up to 15 (capacity is NC*LIMIT)
        rmax = nc * 2 + (1 if tier == 'quick' else 3)            # capacity of the history is NC * SUBSTITUTION_LIMIT (2 here): 1 (quick) / 3 (thorough) beyond it
        L.append(fsm_case('C11', fx, 'replay_overlong', base + ['ENTRY=13', 'EXT_KINDS=0x9e', 'CB_BUDGET=0', 'REPLAY_MAX=%d' % rmax], witness=True,
                          **dict(kw, unwind_extra=[(r'^main\.', 1030), (r'vf_replay_many', 18), (r'replayTransitions|applyRequests', rmax + 3)])))
        L[-1].mem_est = 12
    # the library's own consistency assertions (HFSM2_ENABLE_ASSERT routed through the HFSM2_VERIF hook)
    for fam in (['f5'] if tier == 'quick' else ['f5', 'foroot', 'f3w']):
        o = dict(sublimit=2, features=['ASSERT', 'VERIF'], callbacks=['guard', 'life', 'update1', 'select'], act=['guard', 'update'], kinds=0x9e)
        fx = fixture('C11', fam, o, tag='assert'); fxs.append(fx)
        base = ['P_C11', 'CB_KINDS=0x9e']
        L.append(fsm_case('C11', fx, 'update', base + ['ENTRY=1', 'CB_BUDGET=2'], checks='none', timeout=1200 * T, witness=True))
        for k in ((1,) if tier == 'quick' else (1, 2, 3, 4)):
            L.append(fsm_case('C11', fx, 'imm%d' % k, base + ['ENTRY=2', 'KIND=%d' % k, 'CB_BUDGET=2'], checks='none', timeout=1200 * T, witness=False))
        L.append(fsm_case('C11', fx, 'reset', base + ['ENTRY=4', 'CB_BUDGET=0'], checks='none', timeout=600 * T, witness=False))
    return L, fxs

def run(tier, seed):
    shutil.rmtree(os.path.join(BUILD, 'C11'), ignore_errors=True)
    L, fxs = cases(tier)
    # "the library never allocates": the translated units may reference no external symbol besides the harness stubs
    bad = sorted({d for fx in fxs for d in fx.get('declared', []) if d not in ALLOWED_EXTERNALS and not d.startswith('llvm.')})
    if bad:
        log('VIOLATION property=C11 replay=%s   # the instantiated library references external symbols (allocation?): %s' % (os.path.join(VERIF, 'MANIFEST.json'), bad))
        return 1
    return execute('C11', tier, seed, L, COMMON_ASSUME + [
        'CBMC standard checks ON for the memory-safety cases: array bounds, pointer validity/dereference, pointer-arithmetic overflow, undefined shifts, signed overflow, division by zero; the instance sits between guard bands that are compared after the step (native replay symptom)',
        'request budgets are NOT capped at the queue capacity here: callbacks issue up to NC+2 requests in one step, NC+2 external requests are queued before update(), replayTransitions() receives histories of any length up to 1 (quick) / 3 (thorough) beyond the capacity; afterwards Inv must hold (excess rejected without corrupting state)',
        'the library\'s own assertions: fixture built with HFSM2_ENABLE_ASSERT + the HFSM2_VERIF hook; hfsm2_verif_break() is a failing assertion in the harness',
        'never allocates: the IR of every fixture references no external symbol besides the harness stubs (checked on the translated unit); sizeof(Instance) is a compile-time constant of the type',
        'plan pool at capacity is C07 (bounds checks on), serialization buffer accesses are C08 (bounds checks on), a copy whose original is gone is C10'])
