"""C15 Optional features and header flavour never change unrelated behaviour"""
from props.fsmlib import *
import filecmp, re

H15 = os.path.join(VERIF, 'harness', 'c15.c')
BASE = dict(sublimit=2, callbacks=['guard', 'life', 'update1', 'select'], act=['guard', 'update'], kinds=0x9e)
PAIRS = [
 # name, extra options of configuration B (A = base)
 ('plans',        dict(features=['PLANS'])),
 ('serialization',dict(features=['SERIALIZATION'])),
 ('history',      dict(features=['TRANSITION_HISTORY'])),
 ('utility',      dict(features=['UTILITY_THEORY'], rng='stub')),
 ('logger_off',   dict(features=['LOG_INTERFACE'])),           # interface compiled in, no logger attached
 ('logger_on',    dict(features=['LOG_INTERFACE'], _attach=1)),# logger attached
 ('verbose_log',  dict(features=['VERBOSE_DEBUG_LOG'], _attach=1)),
 ('payload',      dict(payload='u32')),
 # (a pair differing in SUBSTITUTION_LIMIT was removed: the limit is observable by design as soon as a guard keeps substituting,
 #  so it is not an "unrelated" switch)
 ('taskcap',      dict(features=['PLANS'], taskcap=5)),
 ('structure_report', dict(features=['STRUCTURE_REPORT'])),
 ('all',          dict(features=['ALL'], rng='stub')),
 ('dev_headers',  dict(flavour='dev')),
]

def pair_case(fam, name, extra, entry_defs, cname, tier, witness=False, base_extra=None):
    oa = dict(BASE, fnprefix='A_', prefix='A_'); oa.update(base_extra or {})
    ob = dict(BASE, fnprefix='B_', prefix='B_'); ob.update(base_extra or {}); ob.update({k: v for k, v in extra.items() if not k.startswith('_')})
    fa = fixture('C15', fam, oa, tag='A' + ('_' + name if base_extra else ''))
    fb = fixture('C15', fam, ob, tag='B_' + name)
    defs = ['VF_TABLES="%s"' % fa['tables'], 'CB_KINDS=0x9e'] + entry_defs
    logb = any(f in ob.get('features', []) for f in ('LOG_INTERFACE', 'VERBOSE_DEBUG_LOG'))
    if logb: defs += ['B_HAVE_LOGGER', 'LOGGER_ATTACHED_B=%d' % int(bool(extra.get('_attach')))]
    U, uws = bounds(fb, 1, 1)
    c = Case('c15.%s.%s.%s' % (fam, name, cname), fa, H15, defs, unwind=max(U, 66), unwindset=uws, checks='none', solvers=('kissat',),
             timeout=1200 if tier == 'quick' else 3600, witness=witness, tv=False, mem_gb=20,
             meta=dict(fixture_term=fa['term'], config_A={k: v for k, v in oa.items() if 'prefix' not in k}, config_B={k: v for k, v in ob.items() if 'prefix' not in k}))
    c.fixture_b = fb
    return c, fa, fb

def ir_identical(fa, fb):
    """header-flavour pair: compare the IR modulo metadata / prefixes first"""
    def norm(p, pre):
        t = open(p).read()
        t = re.sub(r'![0-9]+ = .*\n', '', t); t = re.sub(r', ![a-z.A-Z]+ ![0-9]+', '', t); t = re.sub(r'^source_filename.*\n', '', t, flags=re.M); t = re.sub(r'; ModuleID.*\n', '', t)
        return t.replace(pre, 'X_')
    return norm(fa['ll'], 'A_') == norm(fb['ll'], 'B_')

def cases(tier):
    L = []; notes = []
    fam = 'f5'
    pairs = [p for p in PAIRS if tier == 'thorough' or p[0] in ('plans', 'logger_on', 'history', 'dev_headers', 'all')]
    for name, extra in pairs:
        ents = [('imm1', ['ENTRY=2', 'KIND=1', 'CB_BUDGET=1'])] + ([('update', ['ENTRY=1', 'CB_BUDGET=1']), ('imm3', ['ENTRY=2', 'KIND=3', 'CB_BUDGET=1']), ('reset', ['ENTRY=4', 'CB_BUDGET=0'])] if tier == 'thorough' else [])
        for cname, ed in ents:
            c, fa, fb = pair_case(fam, name, extra, ed, cname, tier, witness=(cname == 'imm1' and name in ('plans', 'dev_headers')))
            if name == 'dev_headers' and ir_identical(fa, fb):
                c.meta['ir_identical_modulo_metadata'] = True
            L.append(c)
    # both sides with plans: payload type / task-capacity headroom must not change how plans run (symbolic plan, succeed/fail)
    pb = dict(features=['PLANS'], taskcap=3, callbacks=['guard', 'life', 'update1', 'select', 'plan'], act=['update'], kinds=0x0e)
    for name, extra in [('plans_payload', dict(payload='u32'))] + ([('plans_taskcap', dict(taskcap=5)), ('plans_history', dict(features=['PLANS', 'TRANSITION_HISTORY']))] if tier == 'thorough' else []):
        # quick: the plan executor as a unit (update() minus processRequest(), the issued requests compared in the queue);
        # thorough adds the full update()
        c, fa, fb = pair_case(fam, name, extra, ['ENTRY=20', 'CB_BUDGET=0', 'WITH_PLAN', 'CB_KINDS=0x0e'], 'plan_exec', tier, witness=True, base_extra=pb)
        c.unwindset = [(r'clearTasks', 8), (r'vf_plan_|PlanT|CPlanT|updatePlan', 5)] + c.unwindset
        L.append(c)
        if tier == 'thorough':
            c, fa, fb = pair_case(fam, name, extra, ['ENTRY=1', 'CB_BUDGET=0', 'WITH_PLAN', 'CB_KINDS=0x0e'], 'plan_update', tier, witness=True, base_extra=pb)
            c.unwindset = [(r'clearTasks', 8), (r'vf_plan_|PlanT|CPlanT|updatePlan', 5)] + c.unwindset
            L.append(c)
    if tier == 'thorough':
        for name, extra in [p for p in PAIRS if p[0] in ('plans', 'all', 'logger_on')]:
            c, fa, fb = pair_case('foroot', name, extra, ['ENTRY=2', 'KIND=1', 'CB_BUDGET=1'], 'imm1', tier)
            L.append(c)
    return L

def run(tier, seed):
    shutil.rmtree(os.path.join(BUILD, 'C15'), ignore_errors=True)
    return execute('C15', tier, seed, cases(tier), [
        'product program: the same generated machine is compiled under configuration A (base) and B (base + ONE optional feature / the all-on set / the split development headers), both translated with symbol prefixes and linked into harness/c15.c; one symbolic Inv pre-configuration is written into both, one API entry runs on each with the same per-(state,callback) answers (approve/cancel/request any state), then callback sequences, fork arrays, isActive/isResumable answers and queue length are compared',
        'pairs = base vs each single feature (not the 2^n lattice of combinations) + all-on + header flavour; quick runs a subset of pairs and entries, thorough all pairs x {update, immediateChangeTo, immediateResume, reset} and a second fixture',
        'the header-flavour pair is additionally compared at IR level (identical IR modulo metadata is recorded in the evidence)',
        'plan pairs: both sides with plans enabled and the same symbolic plan (<= 2 tasks, cyclic ones included), update callbacks may succeed()/fail(): payload type, task capacity and history must not change how the plan runs',
        'features whose API is only reachable when enabled (plan edits on the plan-less side, save/load, replay, utilize/randomize) are not exercised here: the shared decision stream is restricted to the common subset',
        'callbacks: guards approve/cancel/substitute, update requests; CB_BUDGET 1; request kinds changeTo/restart/resume/select/schedule'])
