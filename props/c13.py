"""C13 Activity, resumable and pending queries agree with each other and the outcome"""
from props.fsmlib import *

def cases(tier):
    L = []
    fams = ['f5', 'f10_small', 'foroot_small', 'fw5', 'foo'] if tier == 'quick' else THOROUGH + ['fw5', 'foo']
    T = 1 if tier == 'quick' else 3
    for fam in fams:
        small = fam.endswith('_small'); fam = fam.replace('_small', '')
        o = dict(sublimit=2, callbacks=['guard', 'life', 'update1', 'select'], act=[], kinds=0)
        fx = fixture('C13', fam, o)
        L.append(tv_case('C13', fx))
        Tb = fx['T']
        # (a) queries agree with each other for every Inv state
        L.append(fsm_case('C13', fx, 'api', ['ENTRY=9', 'P_C13A'], timeout=300 * T))
        # (b) single pending request, guards approve: answers inside guards vs what then happens
        for k in ((1, 2, 3, 4) if not small else ()):
            L.append(fsm_case('C13', fx, 'imm%d' % k, ['P_C13', 'ENTRY=2', 'KIND=%d' % k, 'CB_BUDGET=0', 'NO_CANCEL'] + (['C13_EVERY_GUARD'] if tier == 'thorough' and fam == 'f5' else []), timeout=600 * T, witness=(k == 1)))
            if fx['T'].ns >= 10: L[-1].mem_est = 11          # 10-13 state fixtures: ~10 GB per query (measured)
        # (c) nothing pending inside update callbacks
        L.append(fsm_case('C13', fx, 'update', ['P_C13', 'ENTRY=1', 'CB_BUDGET=0'], timeout=300 * T, witness=False))
        # resume(region) activates what isResumable reported
        for n in Tb.states:
            if n.is_compo:
                L.append(fsm_case('C13', fx, 'resume_d%d' % n.sid, ['P_C13', 'C13_RESUME', 'ENTRY=2', 'KIND=3', 'DEST=%d' % n.sid, 'CB_BUDGET=0', 'NO_CANCEL'], timeout=300 * T, witness=False))
    mark_cover(L, ['c13.f5.imm1'])
    return L

def run(tier, seed):
    shutil.rmtree(os.path.join(BUILD, 'C13'), ignore_errors=True)
    return execute('C13', tier, seed, cases(tier), COMMON_ASSUME + [
        'clause (a): for EVERY Inv state isActive/isResumable/isScheduled/activeSubState through the public API agree with the fork arrays and with each other (no step)',
        'clause (b): one external request of each kind to any state, guards approve and issue nothing; the answers isPendingEnter/Exit/Change(s) for all s, read at every guard invocation, are compared with the enter/exit callbacks the approved round then performs; reenter() alone counts as neither',
        'clause (c): inside update callbacks (nothing pending) and after the step all three are false for every state',
        'the pending queries are read through the instance-level accessors, which call the same RegistryT functions GuardControl exposes'])
