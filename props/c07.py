"""C07 Plan storage keeps per-region task lists intact under edits and at capacity"""
from props.fsmlib import *

def cases(tier):
    L = []
    T = 1 if tier == 'quick' else 3
    for fam, cap, nops in (('f10', 4, 3), ('f5', 3, 5)) if tier == 'quick' else (('f10', 4, 6), ('f5', 3, 7), ('foroot', 4, 6), ('f12', 5, 6)):
        o = dict(features=['PLANS'], taskcap=cap, callbacks=['life'], act=[], kinds=0)
        fx = fixture('C07', fam, o)
        L.append(fsm_case('C07', fx, 'ops%d' % nops, ['FROM_CONSTRUCTION', 'ENTRY=12', 'NOPS=%d' % nops, 'PLAN_KINDS=0x8e'], timeout=900 * T, checks='basic', witness=True,
                          unwind_extra=[(r'^main', max(nops, cap, fx['T'].nr) + 2), (r'vf_plan_|PlanT|CPlanT|clearTasks', max(cap, fx['T'].ns) + 2)]))
    return L

def run(tier, seed):
    shutil.rmtree(os.path.join(BUILD, 'C07'), ignore_errors=True)
    return execute('C07', tier, seed, cases(tier), [
        'units: PlanT::append/linkTask/remove/clearTasks/clear, Plan iterators incl. remove-during-iteration, TaskListT::emplace/remove, reached through the real Instance::plan(regionId) of a constructed machine',
        'every sequence of NOPS symbolic edits (append(region, origin, destination, kind) | remove the idx-th task while iterating | clear(region)) over all regions of the fixture, TASK_CAPACITY as listed; ghost model = one sequence per region',
        'after the sequence (a no-op choice makes every shorter sequence a case too): each region iterates exactly its ghost sequence in order (origin, destination, kind), append fails iff the machine-wide capacity is reached and then changes nothing, lengths add up to tasks.count(); CBMC bounds/pointer checks ON; plan walks are bounded by capacity+2 with unwinding assertions (= acyclic lists)',
        'payload tasks are exercised by C14; the unbounded-history (inductive) form of the pool itself is C19'])
