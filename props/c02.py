"""C02 Processing requests yields exactly the configuration the rules prescribe"""
from props.fsmlib import *

SEED = [1]
def cases(tier):
    L = []
    fams = (QUICK if tier == 'quick' else THOROUGH) + ['fw5']
    T = 1 if tier == 'quick' else 3
    for fam in fams:
        o = dict(sublimit=2, callbacks=['guard', 'life', 'select'], act=[], kinds=0)
        fx = fixture('C02', fam, o)
        L.append(tv_case('C02', fx))
        base = ['P_C02', 'CB_BUDGET=0']
        ns = fx['T'].ns
        for k in (1, 2, 3, 4):
            for d in range(ns):          # destination is a compile-time case split (keeps the reference model's walks concrete)
                L.append(fsm_case('C02', fx, 'imm%d_d%d' % (k, d), base + ['ENTRY=2', 'KIND=%d' % k, 'DEST=%d' % d], timeout=600 * T, witness=(k == 1 and d == ns - 1)))
        L.append(fsm_case('C02', fx, 'noreq_update', base + ['ENTRY=1'], timeout=300 * T, witness=False))
        L.append(fsm_case('C02', fx, 'reset', base + ['ENTRY=4'], timeout=300 * T, witness=False))
        import random
        rnd = random.Random(SEED[0] * 7919 + len(L))
        pairs = [(a, b) for a in range(ns) for b in range(ns)]
        if ns > 10: pairs = rnd.sample(pairs, 40)        # all ordered pairs up to 10 states, a seeded sample beyond
        if tier == 'quick':                              # quick: the 5- and 7-state fixtures in full, a seeded sample of the larger ones
            if fam == 'fw5': pairs = rnd.sample(pairs, 16)
            if fam == 'f10': pairs = rnd.sample(pairs, 36) + [(6, 5), (1, 7)]
            if fam == 'foroot': pairs = rnd.sample(pairs, 24)
        for a, b in pairs:               # batch of two queued requests: kinds symbolic, destinations case-split
            L.append(fsm_case('C02', fx, 'batch2_d%d_d%d' % (a, b), base + ['ENTRY=3', 'NREQ=2', 'EXT_KINDS=0x9e', 'DEST0=%d' % a, 'DEST1=%d' % b], timeout=900 * T, witness=False))
        if tier == 'thorough' and fx['T'].nc >= 3:
            for a, b, c in rnd.sample([(a, b, c) for a in range(ns) for b in range(ns) for c in range(ns)], 24):
                L.append(fsm_case('C02', fx, 'batch3_d%d_d%d_d%d' % (a, b, c), base + ['ENTRY=3', 'NREQ=3', 'EXT_KINDS=0x9e', 'DEST0=%d' % a, 'DEST1=%d' % b, 'DEST2=%d' % c], timeout=2400, witness=False))
    mark_cover(L, ['c02.f5.imm1_d3', 'c02.f5.imm3_d2'])
    return L

def run(tier, seed):
    SEED[0] = seed
    shutil.rmtree(os.path.join(BUILD, 'C02'), ignore_errors=True)
    return execute('C02', tier, seed, cases(tier), COMMON_ASSUME + [
        'reference model ref_apply/ref_commit (harness/fsm.c) is written from the property statement: sequential application of the batch on the pending configuration; destination + ancestors active; entered/re-targeted regions choose by request kind (change = declared strategy) recursively; orthogonal ancestors that get entered resolve their other sub-states by the same kind; later requests override; schedule only remembers',
        "don't-care (statement silent): the resumable sub-state of a region that is re-targeted onto the prong it already had, or entered onto exactly its resumable prong (the code clears it)",
        'requests are external (immediate*: 1, queued batch: 2, thorough 3 on fixtures with >= 3 composite regions), callbacks silent and approving; select() answers are one symbolic valid index per region; utilize/randomize resolution is C12',
        'batch size is bounded by the request-queue capacity (number of composite regions) of the fixture'])
