"""C14 Transition and task payloads reach the states they activate unchanged"""
from props.fsmlib import *

def cases(tier):
    L = []
    T = 1 if tier == 'quick' else 3
    combos = [('f5', 'u32')] if tier == 'quick' else [('f5', 'u32'), ('foroot', 'u32'), ('f10', 'u32')]
    for fam, pl in combos:
        o = dict(sublimit=2, features=['TRANSITION_HISTORY'], payload=pl, callbacks=['guard', 'life', 'select'], act=[], kinds=0)
        fx = fixture('C14', fam, o, tag=pl)
        L.append(tv_case('C14', fx))
        L.append(fsm_case('C14', fx, 'batch2', ['P_C14', 'ENTRY=16', 'NREQ=2', 'CB_BUDGET=0'], timeout=1200 * T, witness=True, nreq=2, budget=0))
        L.append(fsm_case('C14', fx, 'single', ['P_C14', 'ENTRY=16', 'NREQ=1', 'CB_BUDGET=0'], timeout=900 * T, witness=False, nreq=1, budget=0))
        L.append(fsm_case('C14', fx, 'two_steps', ['P_C14', 'ENTRY=18', 'CB_BUDGET=0'], timeout=1500 * T, witness=True, nreq=1, budget=0))
    mark_cover(L, ['c14.f5*.single', 'c14.f5*.batch2'])
    return L

def run(tier, seed):
    shutil.rmtree(os.path.join(BUILD, 'C14'), ignore_errors=True)
    return execute('C14', tier, seed, cases(tier), COMMON_ASSUME + [
        'fixture configured with PayloadT<P> (P = uint32_t; struct payloads - an over-aligned 32-byte and a 5-byte struct were tried: the counterexamples found for them did not reproduce natively, i.e. the translation of the struct copies is not validated, so they are NOT part of the claim) and transition history',
        'two consecutive steps reusing the same history slots (with/without payload in either order); one or two queued external requests (kind change/restart/resume/select, any non-root destination), each with or without a payload; payload values are independent symbolic 32-bit values; guards approve, callbacks issue nothing',
        'oracle: inside every guard pendingTransitions()[i] and inside every enter() currentTransitions()[i] expose destination, kind and exactly the i-th request\'s payload (or none); afterwards previousTransitions()[i] and lastTransitionTo(s) expose the same - never another request\'s value',
        'plan-task payloads are covered by C10 (copy_plans: payloads of tasks and of the requests the executor issues) and C15 (payload vs void configuration)'])
