"""C01 Active states always form a well-formed configuration of the hierarchy"""
from props.fsmlib import *

def cases(tier):
    L = []
    fams = QUICK if tier == 'quick' else THOROUGH
    T = 1 if tier == 'quick' else 3
    for fam in fams + ['futil']:
        util = fam == 'futil'
        o = dict(sublimit=2, callbacks=['guard', 'life', 'update1' if tier == 'quick' else 'update', 'select'] + (['util'] if util else []), act=['guard', 'update'],
                 kinds=0xfe if util else 0x9e)
        fx = fixture('C01', fam, o)
        L.append(tv_case('C01', fx))
        kinds = '0xfe' if util else '0x9e'
        B = 1 if tier == 'quick' else 2
        base = ['P_C01', 'MON_INCB', 'CB_KINDS=' + kinds, 'CB_BUDGET=%d' % B]
        # Inv => API-level well-formedness for EVERY Inv state (no step): also covers the state seen inside callbacks
        L.append(fsm_case('C01', fx, 'api', ['ENTRY=9', 'P_C01', 'P_C13A'], timeout=300 * T))
        L.append(fsm_case('C01', fx, 'update', base + ['ENTRY=1'], timeout=900 * T))
        for k in ([1, 2, 3, 4] + ([5, 6] if util else [])):
            if tier == 'quick' and fam == 'f10' and k != 1: continue      # the 10-state fixture: one immediate kind in the quick tier
            L.append(fsm_case('C01', fx, 'imm%d' % k, base + ['ENTRY=2', 'KIND=%d' % k], timeout=900 * T, witness=(k == 1)))
        L.append(fsm_case('C01', fx, 'reset', base + ['ENTRY=4'], timeout=600 * T, witness=False))
        if tier == 'thorough':
            L.append(fsm_case('C01', fx, 'req2_update', base + ['ENTRY=3', 'NREQ=2', 'EXT_KINDS=' + kinds], timeout=1800))
            L.append(fsm_case('C01', fx, 'construct', ['FROM_CONSTRUCTION', 'ENTRY=1', 'P_C01', 'CB_KINDS=' + kinds, 'CB_BUDGET=1'], timeout=1800, witness=False))
    # deep nesting below an orthogonal region and a width-5 region: every immediate kind to a symbolic destination, callbacks silent
    for fam in ('fdo', 'fw5'):
        o = dict(sublimit=2, callbacks=['guard', 'life', 'select'], act=[], kinds=0)
        fx = fixture('C01', fam, o)
        for k in (1, 2, 3, 4):
            L.append(fsm_case('C01', fx, 'imm%d' % k, ['P_C01', 'ENTRY=2', 'KIND=%d' % k, 'CB_BUDGET=0', 'NO_CANCEL'], timeout=600 * T, witness=(k == 1)))
    # nested random regions below an orthogonal region; region heads may report utility 0 (the regions are still resolved
    # and every one of them consumes its random number)
    o = dict(sublimit=2, callbacks=['guard', 'life', 'select', 'util'], act=[], kinds=0)
    fx = fixture('C01', 'fnn', o)
    for k in (1, 6):
        L.append(fsm_case('C01', fx, 'imm%d' % k, ['P_C01', 'ENTRY=2', 'KIND=%d' % k, 'CB_BUDGET=0', 'NO_CANCEL', 'UTIL_HEAD_ZERO'], timeout=900 * T, witness=(k == 6)))
    if tier == 'thorough':
        # deep nesting below an orthogonal region: every ordered pair of destinations of a 2-request batch (kinds symbolic), callbacks silent
        o = dict(sublimit=2, callbacks=['guard', 'life', 'select'], act=[], kinds=0)
        fx = fixture('C01', 'fdo', o)
        ns = fx['T'].ns
        for a in range(ns):
            for b in range(ns):
                L.append(fsm_case('C01', fx, 'req2_d%d_d%d' % (a, b), ['P_C01', 'ENTRY=3', 'NREQ=2', 'EXT_KINDS=0x1e', 'DEST0=%d' % a, 'DEST1=%d' % b, 'CB_BUDGET=0', 'NO_CANCEL'], timeout=900, witness=False))
    mark_cover(L, ['c01.f5.imm1', 'c01.f5.update'])
    return L

def run(tier, seed):
    shutil.rmtree(os.path.join(BUILD, 'C01'), ignore_errors=True)
    return execute('C01', tier, seed, cases(tier), COMMON_ASSUME + [
        'entries: update(), immediateChangeTo/Restart/Resume/Select(+Utilize/Randomize on the utility fixture)(any state), reset(); thorough adds 2 queued external requests + update() and the constructor path',
        'C01 clause "inside callbacks": the well-formedness of the forks is asserted inside every guard/update/select callback; the API-level statement is proved for every Inv state by the separate no-step query "api"',
        'react()/query()/load()/replay entries are exercised by C05/C08/C09 harnesses, whose checks include the same Inv assertion'])
