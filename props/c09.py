"""C09 History records what was applied; replaying it reproduces the state"""
from props.fsmlib import *

def cases(tier):
    L = []
    fams = ['f5', 'f3w'] if tier == 'quick' else ['f5', 'foroot', 'fsel', 'f10', 'fo2', 'f3w']
    T = 1 if tier == 'quick' else 3
    for fam in fams:
        o = dict(sublimit=2, features=['TRANSITION_HISTORY'], callbacks=['guard', 'life', 'select'], act=['guard'], kinds=0x9e)
        fx = fixture('C09', fam, o)
        L.append(tv_case('C09', fx))
        for k in (1, 2, 3, 4):
            # single round: guards approve or cancel, no substitution
            L.append(fsm_case('C09', fx, 'imm%d_1round' % k, ['P_C09', 'ENTRY=2', 'KIND=%d' % k, 'CB_BUDGET=0'], timeout=600 * T, witness=(k == 1)))
        # one substitution by any guard (two rounds), each round may be vetoed
        for k in ((1,) if tier == 'quick' else (1, 2, 3, 4)):
            L.append(fsm_case('C09', fx, 'imm%d_subst' % k, ['P_C09', 'ENTRY=2', 'KIND=%d' % k, 'CB_BUDGET=1', 'CB_KINDS=0x1e'], timeout=900 * T, witness=False))
        L.append(fsm_case('C09', fx, 'sched', ['P_C09', 'ENTRY=2', 'KIND=7', 'CB_BUDGET=0'], timeout=300 * T, witness=False)) if False else None
    # Manual activation: enter() with redirecting entry guards, then replayEnter() into a never-activated replica
    for fam in (['fosel'] if tier == 'quick' else ['fosel', 'fsel', 'f10']):
        o = dict(sublimit=2, manual=True, features=['TRANSITION_HISTORY'], callbacks=['guard', 'select'], act=['guard'], kinds=0x02)
        fx = fixture('C09', fam, o, tag='man')
        sid = {n.name: n.sid for n in fx['T'].states}
        if fam == 'fosel':
            # cheap variant (quick and thorough): only L1's entry guard may redirect the initial activation, to L2
            L.append(fsm_case('C09', fx, 'replay_enter_l1', ['P_C09', 'ENTRY=22', 'CB_BUDGET=1', 'CB_KINDS=0x02', 'KIND=1', 'CB_ONLY_STATE=%d' % sid['L1'], 'CB_ONLY_DEST=%d' % sid['L2']],
                              timeout=900 * T, witness=False, cover=True, unwind_extra=[(r'initialEnter', 3)]))
            L[-1].mem_est = 8
        if tier == 'thorough':
            # any plain state's entry guard may redirect to any plain state
            L.append(fsm_case('C09', fx, 'replay_enter', ['P_C09', 'ENTRY=22', 'CB_BUDGET=1', 'CB_KINDS=0x02', 'KIND=1', 'CB_ONLY_LEAVES'], timeout=900 * T, witness=False, cover=True,
                              unwind_extra=[(r'initialEnter', 3)]))
            L[-1].mem_est = 12
        # round/request loops of initialEnter: tight; its fill loops are raised on demand (core.run_query)
    L = [c for c in L if c is not None]
    mark_cover(L, ['c09.f5.imm1_subst'])
    return L

def run(tier, seed):
    shutil.rmtree(os.path.join(BUILD, 'C09'), ignore_errors=True)
    return execute('C09', tier, seed, cases(tier), COMMON_ASSUME + [
        'one external request (immediate*, kind case-split, destination symbolic); guards approve/cancel (single round) or one guard additionally substitutes one transition request (two rounds, either may be vetoed)',
        'oracle: (a) previousTransitions() == concatenation of the request sets of the approved guard rounds (destination, kind, origin), empty if none; (b) lastTransitionTo(s) null or inside the history, == that entry for every state activated by a single approved request; (c) an identically prepared replica (struct copy of the pre-state) replays the list: accepted, no guard consulted, same active forks, same resumable forks for single-round steps without scheduling',
        'replayEnter(): Manual-activation fixtures, enter() with entry guards that may redirect the initial activation once, then replayEnter() of the recorded history into a never-activated replica (a veto of the initial activation is outside the statement)'])
