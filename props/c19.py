"""C19 Fixed-capacity task pool and bounded arrays behave like ideal containers"""
import os
from engine import *

ASSUME = [
 'units verified: TaskListT<void,C>::emplace/remove/clear/count/empty/operator[] for C in {1,2,3,5}, TaskListT<uint32_t,3> (payload flavour), DynamicArrayT<TransitionT<void>,2|4>::emplace/+=/copy/clear/iteration, StaticArrayT<Short,5>::fill/clear/empty/!=',
 'pool: (i) every sequence of NOPS symbolic operations (insert with symbolic contents / remove of any live slot / clear) from the empty pool, NOPS as listed per case; (ii) one arbitrary operation from ANY pool state satisfying the representation invariant written in harness/c19.c (inductive step => histories of any length for that capacity)',
 'remove(i) is only called on live slots and operator[] only on live slots (documented precondition); array appends stay within capacity here (over-capacity behaviour is C11)',
 'CBMC bounds/pointer checks are ON for these kernels',
 'outside the claim: capacities other than those listed',
]

def cases(tier, fx):
    H = os.path.join(VERIF, 'harness', 'c19.c')
    sat = ('cadical', 'kissat'); L = []
    T = 1 if tier == 'quick' else 4
    def add(name, defs, unwind, timeout=300, **kw):
        L.append(Case('c19.' + name, fx, H, defs, unwind=unwind, solvers=sat, timeout=timeout * T, checks='basic', meta=dict(kernel=name), **kw))
    seq = {'quick': {1: 6, 2: 6, 3: 6, 5: 4}, 'thorough': {1: 8, 2: 8, 3: 8, 5: 7}}[tier]
    for cap in (1, 2, 3, 5):
        add('TL%d_SEQ%d' % (cap, seq[cap]), ['H_TL_SEQ', 'CAP=%d' % cap, 'NOPS=%d' % seq[cap]], unwind=max(cap, seq[cap]) + 2, timeout=600)
        add('TL%d_STEP' % cap, ['H_TL_STEP', 'CAP=%d' % cap], unwind=cap + 2)
        add('TL%d_CLEAR_NEW' % cap, ['H_TL_CLEAR_NEW', 'CAP=%d' % cap], unwind=cap + 3)
    add('TLP3', ['H_TLP'], unwind=5)
    add('DA', ['H_DA'], unwind=6)
    add('SA', ['H_SA'], unwind=7)
    return L

def run(tier, seed):
    wd = os.path.join(BUILD, 'C19')
    shutil.rmtree(wd, ignore_errors=True)
    fx = build_fixture(wd, 'c19', open(os.path.join(VERIF, 'kernels', 'c19.cpp')).read())
    return execute('C19', tier, seed, cases(tier, fx), ASSUME)

def cases_all(tier):
    wd = os.path.join(BUILD, 'C19')
    fx = build_fixture(wd, 'c19', open(os.path.join(VERIF, 'kernels', 'c19.cpp')).read())
    return cases(tier, fx)
