"""C18 Bit arrays and streams are exact for every index, width, value and alignment"""
import os, random
from engine import *

ASSUME = [
 'units verified: BitArrayT<N> for the listed N (dynamic and static index get/set/clear, set()/clear()/empty(), !=, boolean &, &=, Bits/CBits views: dynamic (unit,width) and static <U,W>), StreamBufferT/BitWriteStreamT/BitReadStreamT<N>::write<W>/read<W> for all W in 1..32',
 'bit arrays: contents, indices and view (unit,width) are solver variables; sequences of NOPS single-index operations as listed per case; oracle = set semantics on a ghost uint64 mask',
 'streams: item VALUES (two independent sets, for the ==/!= clause) and the prior buffer content are symbolic; start alignment (0..7 bits) and the width sequence are compile-time case splits (a symbolic width/alignment gave no verdict in 600 s); the case list is in the evidence',
 'precondition assumed inside the harness: every written value fits its width (v < 2^w) - write<W> does not mask, and the statement only speaks about values that can be read back with the same width',
 "don't-care: bits of a view's last storage unit beyond its width after the view's clear() (padding of the view)",
 'functional run (no pointer checks): the one-byte over-read of view operator bool for width%8==0 at the end of storage is C11\'s subject and is excluded here by its defining predicate',
 'outside the claim: N > 40 for bit arrays; sequences longer than 4 items; buffers other than 32/64/100/136 bits',
]

def cases(tier, fx, seed):
    H = os.path.join(VERIF, 'harness', 'c18.c')
    sat = ('cadical', 'kissat'); L = []
    T = 1 if tier == 'quick' else 4
    def add(name, defs, unwind, timeout=300, **kw):
        L.append(Case('c18.' + name, fx, H, defs, unwind=unwind, solvers=sat, timeout=timeout * T, checks='none', meta=dict(kernel=name), **kw))
    Ns = (8, 9, 17, 24) if tier == 'quick' else (1, 7, 8, 9, 16, 17, 24, 40)
    nops = 4 if tier == 'quick' else 5
    for n in Ns:
        add('BA%d_OPS%d' % (n, nops), ['H_BA_OPS', 'N=%d' % n, 'NOPS=%d' % nops], unwind=n + 2, timeout=600)
        add('BA%d_WHOLE' % n, ['H_BA_WHOLE', 'N=%d' % n], unwind=n + 2)
        add('BA%d_VIEW' % n, ['H_BA_VIEW', 'N=%d' % n, 'KF_VIEW_BOOL_OOB'], unwind=n + 2)
    add('BA24_SVIEW', ['H_BA_SVIEW'], unwind=26)
    # streams
    rnd = random.Random(seed)
    seqs = [(1, 32, 8, 13), (13, 3, 32, 1), (32, 32, 1), (8, 8, 8, 8), (3, 13, 13, 32), (31, 1, 17, 9), (7, 9), (16, 16, 16), (24, 25, 2), (5, 27, 32), (32, 1, 32), (2, 30)]
    pads = (0, 3, 5, 7) if tier == 'quick' else tuple(range(8))
    k = 0
    for sq in seqs:
        for pad in pads:
            bits = pad + sum(sq); sn = 32 if bits <= 32 else 64 if bits <= 64 else 100 if bits <= 100 else 136
            defs = ['H_STREAM', 'SN=%d' % sn, 'PAD=%d' % pad] + ['W%d=%d' % (i + 1, w) for i, w in enumerate(sq)]
            k += 1
            add('ST%d_p%d_%s' % (sn, pad, '_'.join(map(str, sq))), defs, unwind=36, tv=(k % 6 == 1), witness=(k % 3 == 1), object_bits=None)
    if tier == 'thorough':
        for w1 in range(1, 33):
            for w2 in range(1, 33):
                for pad in (0, 1, 4, 7):
                    bits = pad + w1 + w2; sn = 32 if bits <= 32 else 64 if bits <= 64 else 100
                    add('ST%d_p%d_%d_%d' % (sn, pad, w1, w2), ['H_STREAM', 'SN=%d' % sn, 'PAD=%d' % pad, 'W1=%d' % w1, 'W2=%d' % w2], unwind=36, tv=False, witness=False)
    return L

def run(tier, seed):
    wd = os.path.join(BUILD, 'C18')
    shutil.rmtree(wd, ignore_errors=True)
    fx = build_fixture(wd, 'c18', open(os.path.join(VERIF, 'kernels', 'c18.cpp')).read())
    return execute('C18', tier, seed, cases(tier, fx, seed), ASSUME)

def cases_all(tier):
    wd = os.path.join(BUILD, 'C18')
    fx = build_fixture(wd, 'c18', open(os.path.join(VERIF, 'kernels', 'c18.cpp')).read())
    return cases(tier, fx, 1)
