"""Shared pieces of the machine-level checks: fixture family, fixture building, case construction, bounds."""
import os, re
from engine import *
import genfx

HARNESS = os.path.join(VERIF, 'harness', 'fsm.c')

# ---- fixture family ("programs" quantifier): every template family instantiated at least once --------------------
FAMILY = {
 # name: (term, note)
 'f5':    ('C:Apex(A, R:B(B1,B2))',                                   '5 states, no orthogonal region (RegistryT specialisation _2), resumable'),
 'f10':   ('C:Apex(A, C:B(B1,B2), O:Or(R:R(R1,R2), L))',              '10 states, orthogonal region with a plain-state sibling, nested resumable'),
 'fsel':  ('C:Apex(A, S:Sx(S1, C:T(T1,T2)))',                         'selectable region one of whose sub-states is itself a region'),
 'foroot':('O:Apex(C:P(P1,P2), R*:Q(Q1,Q2))',                         'orthogonal root, headless resumable region'),
 'futil': ('C:Apex(A, U:U(U1,U2), N:N(N1,N2,N3))',                    'utilitarian and random regions (stub generator)'),
 'f3w':   ('R:Apex(A, B, C:D(D1,D2,D3))',                             'resumable root, odd width 3 (LHalf/RHalf split)'),
 'fpeer': ('C*:Apex(A, S*:Sx(S1,S2), B)',                             'headless root and headless selectable region'),
 'fdeep': ('C:Apex(A, C:B(B1, R:Cc(C1, C2)))',                        'depth 3 nesting'),
 'fo2':   ('C:Apex(A, O:Or(C:P(P1,P2), C:Q(Q1,Q2)))',                 'orthogonal region with two region siblings'),
 'f12':   ('C:Apex(A, R:B(B1,B2,B3), O:Or(C:P(P1,P2), S:Q(Q1,Q2)))',  '13 states: width-3 resumable, orthogonal with composite and selectable siblings'),
 'fo8':   ('C:Apex(A, O:Or(L1,L2,L3,L4,L5,L6,L7,L8))',                '8-wide orthogonal region (bit view ends on a byte boundary)'),
 'fo3':   ('C:Apex(A, O:Or(L1, L2, C:P(P1,P2)))',                         'orthogonal region with two plain-state siblings followed by a region sibling'),
 'fp3':   ('C:Apex(A, B, C:D(D1,D2))',                                 'plan fixture: three sub-states of the root, one of them a region'),
 'fdo':   ('C:Apex(A, O:Or(C:Md(M1, C:Nd(N1, C:Rd(R1,R2))), C:W(W1,W2)))',  'orthogonal region whose sub-regions nest composites three deep'),
 'fw5':   ('R:Apex(A, C:B(B1,B2), W2, W3, W4)',                        'width-5 resumable root whose second sub-state is a region: the LHalf/RHalf dispatch split has a left half with a non-first member'),
 'foo':   ('C:Apex(A, O:Or(O:Oi(X, Y), Q))',                            'orthogonal region nested directly inside an orthogonal region'),
 'fnn':   ('C:Apex(A, N:R(O:Oq(N:Na(A1,A2), N:Nb(B1,B2)), X))',       'random region holding an orthogonal region of two random regions'),
 'fpn':   ('C:Apex(C:P(C:G(G1,G2)), A)',                               'plan fixture: plan-owning region nested in a composite region'),
 'fpo':   ('O:Apex(L, C:G(G1,G2))',                                    'plan fixture: plan-owning region below an orthogonal region, after a plain sibling'),
 'fosel': ('O:Apex(S:Md(M1,M2), C:L(L1,L2))',                         'orthogonal root: a selectable region beside a composite one'),
 'fo3c':  ('O:Apex(C:P(P1,P2), C:Q(Q1,Q2), C:W(W1,W2))',              'orthogonal root of three composites: 10 serialization bits, a byte boundary inside the record'),
 'fnu':   ('C:Apex(A, U:U(U1, C:V(V1,V2)), S:Sx(S1,S2))',             'utilitarian region with a nested region, selectable sibling'),
}
QUICK = ['f5', 'f10', 'fsel', 'foroot']
THOROUGH = QUICK + ['f3w', 'fpeer', 'fdeep', 'fo2', 'f12']

_built = {}
def fixture(pid, fam, opts=None, tag=''):
    """build (once per run) the fixture for family member `fam` with options; returns info dict incl. tables path"""
    opts = dict(opts or {})
    key = (pid, fam, tag, repr(sorted(opts.items())))
    if key in _built: return _built[key]
    term = FAMILY[fam][0]
    cpp, tables, defs, T = genfx.generate(term, opts)
    wd = os.path.join(BUILD, pid)
    name = '%s%s' % (fam, ('_' + tag) if tag else '')
    fx = build_fixture(wd, name, cpp, defs, rtti=('STRUCTURE_REPORT' in opts.get('features', []) or 'ALL' in opts.get('features', [])),
                       flavour=opts.get('flavour', 'single'), prefix=opts.get('prefix', ''))
    tp = os.path.join(wd, name + '_tables.h'); open(tp, 'w').write(tables)
    fx.update(tables=tp, T=T, term=term, opts=opts, fam=fam)
    _built[key] = fx
    return fx

def bounds(fx, nreq=1, budget=1):
    """loop bounds derived from the structure: the loops of processTransitions/initialEnter (round loop <= SUBSTITUTION_LIMIT,
    request loops <= requests per round <= min(queue capacity, external + callback-issued), registry compares <= fork
    counts) are the expensive ones - every extra unwinding copies applyRequest + the guard traversal"""
    T = fx['T']; sub = fx['opts'].get('sublimit') or 4
    per_round = min(T.nc, nreq + budget)
    B = max(per_round, sub, T.ounits, 1) + 1
    feats = fx['opts'].get('features', [])
    tcap = (fx['opts'].get('taskcap') or T.compo_prongs * 2) if ('PLANS' in feats or 'ALL' in feats) else 0
    U = max(T.ns, T.nc * sub, T.maxw, 8, tcap, T.nr) + 2
    uws = [(r'replayTransitions|applyRequests|replayEnter', max(B, T.nc * sub + 1)),    # these also construct a TransitionSets array (NC*LIMIT items)
           (r'processTransitions', B),   # initialEnter keeps the default: it also holds array fill loops
           (r'requestImmediate|isActive|isResumable|isPending|activeSubState|requestScheduled', T.maxdepth + 3),
           (r'^m_active|^uparent', T.maxdepth + 3)]
    return U, uws

def fsm_case(pid, fx, name, defs, timeout=600, solvers=('kissat',), checks='none', witness=True, tv=False, meta=None, mem_gb=16, unwind_extra=(), nreq=1, budget=None, cover=False):
    if budget is None:
        b = [d for d in defs if d.startswith('CB_BUDGET=')]; budget = int(b[0].split('=')[1]) if b else 2
    n = [d for d in defs if d.startswith('NREQ=')]
    if n: nreq = int(n[0].split('=')[1])
    if 'ENTRY=1' in defs or 'ENTRY=4' in defs or 'ENTRY=9' in defs: nreq = 0
    U, uws = bounds(fx, nreq, budget)
    d = ['VF_TABLES="%s"' % fx['tables']] + list(defs)
    if any(f in fx['opts'].get('features', []) for f in ('LOG_INTERFACE', 'VERBOSE_DEBUG_LOG')): d.append('HAVE_LOGGER')
    m = dict(fixture_term=fx['term'], fixture_note=FAMILY[fx['fam']][1], config={k: v for k, v in fx['opts'].items() if k != 'prefix'})
    m.update(meta or {})
    c = Case('%s.%s.%s' % (pid.lower(), fx['name'], name), fx, HARNESS, d, unwind=U, unwindset=list(unwind_extra) + uws, checks=checks,
             solvers=solvers, timeout=timeout, meta=m, witness=witness, tv=tv, mem_gb=mem_gb)
    c.cover = cover
    return c

def mark_cover(L, patterns):
    """cases (glob patterns on the case name) that additionally run their COVER() goals under cbmc --cover cover"""
    import fnmatch
    for c in L:
        if any(fnmatch.fnmatch(c.name, p) for p in patterns): c.cover = True
    return L

def tv_case(pid, fx):
    """translation validation of an FSM fixture: seeded random walk from the constructed instance, native only"""
    c = fsm_case(pid, fx, 'tvwalk', ['TV_WALK', 'ENTRY=9'], tv=True)
    c.cbmc = False; c.tv_seeds = 16
    return c

COMMON_ASSUME = [
 'machine structures: the listed fixture family only (each structure is a separate instantiation of the real templates); other shapes are outside the claim',
 'one-step inductive form: the instance is built by the real constructor, then compoActive/compoResumable are havocked under the representation invariant Inv (harness/fsm.c inv_raw), then exactly one public API entry runs; C01 discharges that Inv is preserved, so per-step conclusions extend to histories of any length for these fixtures',
 'callbacks are nondeterministic stubs: each guard/update callback may do nothing, cancel (guards), or issue one request of any allowed kind to any state; at most CB_BUDGET requests per step (listed per case); select() returns any valid index; utilities from {0,.25,..,1.75}; generator output any float in [0,1)',
 'functional harnesses run with --no-standard-checks (memory safety is C11\'s own harness on the same fixtures)',
 'loop bounds are derived from the structure tables and enforced by --unwinding-assertions',
]
