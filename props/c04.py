"""C04 Guards precede any change; a vetoed round changes nothing; rounds are bounded"""
from props.fsmlib import *

def cases(tier):
    L = []
    fams = ['f5', 'foroot', 'fw5'] if tier == 'quick' else ['f5', 'foroot', 'fsel', 'f10', 'fo2', 'fw5']
    T = 1 if tier == 'quick' else 3
    for fam in fams:
        o = dict(sublimit=2, callbacks=['guard', 'life', 'select'], act=['guard'], kinds=0x9e)
        fx = fixture('C04', fam, o)
        L.append(tv_case('C04', fx))
        B = 2
        base = ['P_C04', 'MON_GUARD', 'CB_KINDS=0x9e', 'CB_BUDGET=%d' % B]
        for k in (1, 2, 3, 4):
            L.append(fsm_case('C04', fx, 'imm%d' % k, base + ['ENTRY=2', 'KIND=%d' % k], timeout=900 * T, witness=(k == 1)))
        if tier == 'thorough':
            L.append(fsm_case('C04', fx, 'req2_update', base + ['ENTRY=3', 'NREQ=2', 'EXT_KINDS=0x9e'], timeout=2400, witness=False))
    # termination with the library default SUBSTITUTION_LIMIT (4) and with 3: the round-loop unwinding assertion is the claim
    for lim, fam in ((4, 'f5'), (3, 'f5')) if tier == 'quick' else ((4, 'f5'), (3, 'f5'), (4, 'foroot')):
        o = dict(sublimit=lim, callbacks=['guard', 'life', 'select'], act=['guard'], kinds=0x9e)
        fx = fixture('C04', fam, o, tag='lim%d' % lim)
        L.append(fsm_case('C04', fx, 'imm1_limit%d' % lim, ['P_C04', 'MON_GUARD', 'CB_KINDS=0x9e', 'CB_BUDGET=%d' % lim, 'ENTRY=2', 'KIND=1'], timeout=1200 * T, witness=False, budget=1))
    mark_cover(L, ['c04.f5.imm1', 'c04.foroot.imm1'])
    return L

def run(tier, seed):
    shutil.rmtree(os.path.join(BUILD, 'C04'), ignore_errors=True)
    return execute('C04', tier, seed, cases(tier), COMMON_ASSUME + [
        'every guard invocation may approve, cancel, or substitute (issue a request of any allowed kind to any state) - all combinations over all rounds are solver variables; CB_BUDGET substitutions per step',
        'round boundaries are recognised by the monitor from the callback stream (first guard, a guard after a cancel, an exit guard after an entry guard, or a repeated guard)',
        'clauses: (a) every exit/enter of the step is preceded by the exit/entry guard of that state in this step and no lifecycle callback runs before the last guard; (b) if no round was approved: no lifecycle callback, active forks unchanged, resumable forks unchanged except prongs named by schedule requests; (d) rounds <= SUBSTITUTION_LIMIT (monitor count and the unwinding assertion of the round loop; library default 4 on the 5-state fixture)',
        'clause (c) (a vetoed round followed by an approved one equals the approved one alone) is checked against the C02 reference model in the thorough tier of C02/C04'])
