"""C06 Plans run tasks in order and report success or failure to the region head"""
from props.fsmlib import *

def cases(tier):
    L = []
    T = 1 if tier == 'quick' else 3
    for fam in (['fp3'] if tier == 'quick' else ['fp3', 'f5', 'f3w']):
        o = dict(sublimit=2, features=['PLANS', 'TRANSITION_HISTORY'], taskcap=3, callbacks=['life', 'update1', 'plan', 'select'], act=['update'], kinds=0)
        fx = fixture('C06', fam, o)
        L.append(tv_case('C06', fx))
        L.append(fsm_case('C06', fx, 'plan_step', ['P_C06', 'ENTRY=17', 'CB_BUDGET=0', 'CB_KINDS=0'], timeout=1200 * T, witness=True, nreq=2, budget=0,
                          unwind_extra=[(r'vf_plan_|PlanT|CPlanT|updatePlan|clearTasks', max(5, fx['T'].ns + 2))]))
    # nested plan-owning regions: the plan sits on region G (below a composite / below an orthogonal region after a plain sibling)
    for fam in ['fpn', 'fpo']:
        o = dict(sublimit=2, features=['PLANS', 'TRANSITION_HISTORY'], taskcap=3, callbacks=['life', 'update1', 'plan', 'select'], act=['update'], kinds=0)
        fx = fixture('C06', fam, o)
        g = [n.sid for n in fx['T'].states if n.name == 'G'][0]
        L.append(fsm_case('C06', fx, 'nested_plan_step', ['P_C06', 'ENTRY=17', 'CB_BUDGET=0', 'CB_KINDS=0', 'PLAN_HEAD=%d' % g, 'PLAN_NOPROCESS'], timeout=1200 * T, witness=True, nreq=2, budget=0,
                          unwind_extra=[(r'clearTasks', fx['T'].ns + 2), (r'vf_plan_|PlanT|CPlanT|updatePlan', 5)]))
    mark_cover(L, ['c06.*.plan_step', 'c06.*.nested_plan_step'])
    return L

def run(tier, seed):
    shutil.rmtree(os.path.join(BUILD, 'C06'), ignore_errors=True)
    return execute('C06', tier, seed, cases(tier), COMMON_ASSUME + [
        'a plan of 0..2 tasks on the root region is built by real Plan::change/restart/resume calls with symbolic origin (a direct sub-state of the root), destination (any state) and kind; planExists may also be set with an empty plan; then update(): the root head and the active sub-state may succeed() or fail() (solver variables), no callback requests a transition, guards approve',
        'oracle from the statement: which tasks fire (leading tasks whose origin is the active sub-state, if it succeeded, none failed, and the head has no status), that exactly those are removed, the remaining ones keep order and contents, the transitions recorded by the history are on behalf of the region head, in plan order, of the task\'s kind; planSucceeded / planFailed delivery to the head; all success/failure marks clear after the step',
        'bounded: TASK_CAPACITY 3, at most 2 tasks, at most queue-capacity (number of composite regions) tasks executed per step; nested plan-owning regions and plan payloads are outside this check'])
