"""C20 Bundled generators are seed-determined, match xoshiro/splitmix, stay in [0,1)"""
import os
from engine import *

ASSUME = [
 'units verified (IR of the real header, -O1): SimpleRandomT<4|8>::raw*/uint*/ctor, BaseRandomT<4|8> ctor/seed, FloatRandomT<4|8> and IntRandomT<4|8> uint32/uint64/float32/float64/next/jump, uniform(uint32|uint64), RNGT<float>',
 'inputs: the full 32/64-bit seed, the full 128/256-bit generator state and the full input word are solver variables; no value restriction',
 'bounds: jump() loops unwound 4x32 / 4x64 (+1) and seeding retry loops unwound 3 (a zero word can follow a zero word only if two consecutive splitmix states map to 0, which the bijective finaliser excludes) - all with --unwinding-assertions',
 'reference implementations are written in harness/c20.c from the published algorithms, not from the library',
 'widen(uint32(),uint32()) of the 32-bit flavours has unspecified evaluation order in C++; either order is accepted',
 'outside the claim: statistical quality; platforms whose float is not IEEE-754 binary32/64',
]

def cases(tier, fx):
    H = os.path.join(VERIF, 'harness', 'c20.c')
    sat = ('cadical', 'kissat'); mul = ('cvc5int', 'cadical', 'kissat')
    L = []
    def add(name, solvers=sat, unwind=5, timeout=300, thorough=False, unwindset=(), defs=(), tag=None, **kw):
        if thorough and tier != 'thorough': return
        L.append(Case('c20.' + (tag or name), fx, H, ['H_' + name] + list(defs), unwind=unwind, solvers=solvers, timeout=timeout if tier == 'quick' else timeout * 4,
                      unwindset=unwindset, meta=dict(kernel=name), **kw))
    add('SM8_STEP', mul); add('SM4_STEP', mul)
    add('SM8_NONZERO', mul, unwind=3); add('SM4_NONZERO', mul, unwind=3)
    add('F8_STEP'); add('I8_STEP', mul); add('F4_STEP'); add('I4_STEP', mul)
    add('F4_U64'); add('I4_U64', mul)
    add('UNIFORM32'); add('UNIFORM64')
    add('FLOATS8'); add('FLOATS4')
    add('F8_SEED', mul, unwind=5, timeout=300); add('F4_SEED', mul, unwind=5, timeout=300)
    add('I8_SEED', mul, unwind=5, timeout=300); add('I4_SEED', mul, unwind=5, timeout=300)
    # seeding == 4 non-zero reference words for a SYMBOLIC seed: chained multiplier equivalence, expensive
    add('F4_SEED', mul, unwind=5, timeout=450, thorough=True, defs=['SEED_EQ'], tag='F4_SEED_EQ')
    add('F8_SEED', mul, unwind=5, timeout=450, thorough=True, defs=['SEED_EQ'], tag='F8_SEED_EQ')
    # storage independence of the machine's built-in generator: seed concrete, prior storage symbolic
    add('RNGT_DET', sat, unwind=5, timeout=300, defs=['SEED_CONST=0ULL'], tag='RNGT_DET_seed0')
    add('RNGT_DET', sat, unwind=5, timeout=300, defs=['SEED_CONST=0x0123456789abcdefULL'], tag='RNGT_DET_seedK')
    add('RNGT_DET', mul, unwind=5, timeout=450, thorough=True, tag='RNGT_DET_symbolic_seed')
    # translated goto-loops: the inner back-edge counter is not reset between outer iterations -> 4*32(+2) / 4*64(+2)
    add('F4_JUMP', unwind=34, timeout=600, unwindset=[(r'^k_.*jump', 35)]); add('I4_JUMP', unwind=34, timeout=600, thorough=True, unwindset=[(r'^k_.*jump', 35)])
    add('F8_JUMP', unwind=66, timeout=900, unwindset=[(r'^k_.*jump', 67)]); add('I8_JUMP', unwind=66, timeout=900, thorough=True, unwindset=[(r'^k_.*jump', 67)])
    return L

def run(tier, seed):
    wd = os.path.join(BUILD, 'C20')
    shutil.rmtree(wd, ignore_errors=True)
    fx = build_fixture(wd, 'c20', open(os.path.join(VERIF, 'kernels', 'c20.cpp')).read())
    return execute('C20', tier, seed, cases(tier, fx), ASSUME)

def cases_all(tier):
    wd = os.path.join(BUILD, 'C20')
    fx = build_fixture(wd, 'c20', open(os.path.join(VERIF, 'kernels', 'c20.cpp')).read())
    return cases(tier, fx)
