"""C12 Utility and weighted-random selection pick the right sub-state for all inputs"""
from props.fsmlib import *

def cases(tier):
    L = []
    T = 1 if tier == 'quick' else 3
    fams = [('futil', [(5, 2), (6, 5), (5, 5), (6, 2)]), ('fnu', [(5, 2)])] if tier == 'quick' else [('futil', [(5, 2), (6, 5), (5, 5), (6, 2)]), ('fnu', [(5, 2)]), ('fn4', [(6, 0), (5, 0)])]
    FAMILY.setdefault('fn4', ('N:Apex(A, B, C, D)', 'random root of width 4'))
    for fam, reqs in fams:
        o = dict(sublimit=2, callbacks=['life', 'util', 'select'], act=[], kinds=0)
        fx = fixture('C12', fam, o)
        L.append(tv_case('C12', fx))
        for kind, dest in reqs:
            nm = 'utilize' if kind == 5 else 'randomize'
            defs = ['P_C12', 'ENTRY=2', 'KIND=%d' % kind, 'DEST=%d' % dest, 'CB_BUDGET=0', 'NO_CANCEL']
            if kind == 5:
                L.append(fsm_case('C12', fx, '%s_d%d' % (nm, dest), defs, timeout=900 * T, witness=True, solvers=('kissat', 'cadical')))
            else:
                # randomize: utilities on a 16-step grid with a full-range symbolic r decide in minutes; full-range float
                # utilities as well is a thorough-tier query (may end without a verdict, which is reported as such)
                L.append(fsm_case('C12', fx, '%s_grid_d%d' % (nm, dest), defs + ['C12_GRID=16'], timeout=900 * T, witness=True, solvers=('kissat', 'cadical')))
                if tier == 'thorough': L.append(fsm_case('C12', fx, '%s_full_d%d' % (nm, dest), defs, timeout=1500, witness=False, solvers=('kissat', 'cadical')))
    return L

def run(tier, seed):
    shutil.rmtree(os.path.join(BUILD, 'C12'), ignore_errors=True)
    return execute('C12', tier, seed, cases(tier), COMMON_ASSUME + [
        'utilities are FULL-RANGE symbolic floats (finite, 0 <= u <= 1e6, one per state), ranks any int8, the generator output any float in [0,1); bit-precise IEEE-754 single precision in CBMC',
        'utilize oracle: leftmost argmax of the statement\'s recursive utility (head x best sub-state; orthogonal: head x mean) computed with the same float operations',
        'randomize oracle: a sub-state is always chosen, it has top rank and positive utility, exactly one random number per random region; interval clause evaluated in double with the stated rounding slack delta = (width+1) * 2^-24 * sum (the statement speaks of real intervals, the code computes in float)',
        'precondition assumed: the top-rank utilities of the resolved region have a positive sum',
        'nested regions: utilize is checked on a Utilitarian region with a nested composite region (recursive utility); the randomize oracle is per region with plain sub-states - a random region nested in the resolved one (two random numbers, product utilities) is outside this check and is covered for well-formedness only by C01 (fixture fnn)',
        'immediateUtilize / immediateRandomize on the region head (case split), guards approve, callbacks silent'])
