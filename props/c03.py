"""C03 Lifecycle callbacks are balanced, nested and delivered to the right object"""
from props.fsmlib import *

def cases(tier):
    L = []
    fams = ['f5', 'fsel', 'foroot', 'fw5'] if tier == 'quick' else THOROUGH + ['fw5']
    T = 1 if tier == 'quick' else 3
    for fam in fams:
        o = dict(sublimit=2, callbacks=['guard', 'life', 'update1', 'select'], act=['guard', 'update'], kinds=0x9e)
        fx = fixture('C03', fam, o)
        L.append(tv_case('C03', fx))
        B = 1 if tier == 'quick' else 2
        base = ['P_C03', 'MON_LIFE', 'CB_KINDS=0x9e', 'CB_BUDGET=%d' % B]
        L.append(fsm_case('C03', fx, 'update', base + ['ENTRY=1'], timeout=900 * T))
        for k in (1, 2, 3, 4):
            L.append(fsm_case('C03', fx, 'imm%d' % k, base + ['ENTRY=2', 'KIND=%d' % k], timeout=900 * T, witness=(k == 1)))
        L.append(fsm_case('C03', fx, 'reset', base + ['ENTRY=4'], timeout=600 * T, witness=False))
        # whole life: construct (first activation monitored) -> one step -> destroy: everything exited exactly once
        L.append(fsm_case('C03', fx, 'life_update', ['FROM_CONSTRUCTION', 'ENTRY=1', 'P_C03', 'MON_LIFE', 'CB_KINDS=0x9e', 'CB_BUDGET=1'], timeout=900 * T, witness=True))
        L.append(fsm_case('C03', fx, 'life_imm1', ['FROM_CONSTRUCTION', 'ENTRY=2', 'KIND=1', 'P_C03', 'MON_LIFE', 'CB_KINDS=0x9e', 'CB_BUDGET=1'], timeout=900 * T, witness=False))
        if tier == 'thorough':
            L.append(fsm_case('C03', fx, 'req2_update', base + ['ENTRY=3', 'NREQ=2', 'EXT_KINDS=0x9e'], timeout=2400, witness=False))
    # manual activation: enter()/exit() cycles
    for fam in (['f5'] if tier == 'quick' else ['f5', 'f10']):
        o = dict(sublimit=2, manual=True, callbacks=['guard', 'life', 'update1', 'select'], act=['guard', 'update'], kinds=0x9e)
        fx = fixture('C03', fam, o, tag='man')
        base = ['P_C03', 'MON_LIFE', 'CB_KINDS=0x9e', 'CB_BUDGET=1']
        L.append(fsm_case('C03', fx, 'enter', base + ['ENTRY=7'], timeout=600 * T))
        L.append(fsm_case('C03', fx, 'exit', base + ['ENTRY=8'], timeout=600 * T, witness=False))
        L.append(fsm_case('C03', fx, 'life_manual', ['FROM_CONSTRUCTION', 'ENTRY=1', 'P_C03', 'MON_LIFE', 'CB_KINDS=0x9e', 'CB_BUDGET=1'], timeout=900 * T, witness=False))
    mark_cover(L, ['c03.f5.imm1', 'c03.f5.imm2'])
    return L

def run(tier, seed):
    shutil.rmtree(os.path.join(BUILD, 'C03'), ignore_errors=True)
    return execute('C03', tier, seed, cases(tier), COMMON_ASSUME + [
        'monitor automaton in the callback stub (harness/fsm.c, MON_LIFE): enter only on a not-entered state whose (user-visible) parent is entered; exit only on an entered state none of whose descendants is entered; update/reenter/exitGuard only on entered states; every callback\'s this == access<State>()',
        'inductive form: entered[] = active set of the Inv pre-state, after the step entered[] == isActive(.) for every state; whole-life form: construction (first activation monitored) -> one step -> destruction / exit(): every state exited exactly as often as entered',
        'headless region heads have no callbacks; nesting is checked against the nearest user-visible ancestor',
        'load()/replay entries are monitored by the same automaton in the C08/C09 harnesses'])
