"""C16 Logger and structure report faithfully mirror what the machine does"""
from props.fsmlib import *

def cases(tier):
    L = []
    T = 1 if tier == 'quick' else 3
    fams = ['f5', 'fsel'] if tier == 'quick' else ['f5', 'fsel', 'foroot', 'f10']
    for fam in fams:
        o = dict(sublimit=2, features=['LOG_INTERFACE'], callbacks=['guard', 'life', 'update1', 'select'], act=['guard', 'update'], kinds=0x9e)
        fx = fixture('C16', fam, o)
        L.append(tv_case('C16', fx))
        base = ['P_C16', 'CB_KINDS=0x9e', 'CB_BUDGET=1']
        L.append(fsm_case('C16', fx, 'update', base + ['ENTRY=1'], timeout=900 * T, witness=True))
        for k in ((1, 4) if tier == 'quick' else (1, 2, 3, 4)):
            L.append(fsm_case('C16', fx, 'imm%d' % k, base + ['ENTRY=2', 'KIND=%d' % k], timeout=900 * T, witness=False))
        L.append(fsm_case('C16', fx, 'detached_imm1', base + ['ENTRY=2', 'KIND=1', 'LOGGER_DETACHED'], timeout=900 * T, witness=False))
    if tier == 'quick':
        # an orthogonal region: several guards of one pass may cancel (each cancellation must be reported)
        o = dict(sublimit=2, features=['LOG_INTERFACE'], callbacks=['guard', 'life', 'select'], act=['guard'], kinds=0x9e)
        fx = fixture('C16', 'foroot', o, tag='g')
        L.append(fsm_case('C16', fx, 'imm1', ['P_C16', 'CB_KINDS=0x9e', 'CB_BUDGET=1', 'ENTRY=2', 'KIND=1'], timeout=900, witness=False))
    if tier == 'thorough':
        o = dict(sublimit=2, features=['VERBOSE_DEBUG_LOG'], callbacks=['guard', 'life', 'update1', 'select'], act=['guard', 'update'], kinds=0x9e)
        fx = fixture('C16', 'f5', o, tag='verbose')
        L.append(fsm_case('C16', fx, 'verbose_imm1', ['P_C16', 'C16_VERBOSE', 'CB_KINDS=0x9e', 'CB_BUDGET=1', 'ENTRY=2', 'KIND=1'], timeout=1800, witness=False))
    # structure report / activity history (needs RTTI: the report holds type names)
    for fam in (['f5'] if tier == 'quick' else ['f5', 'foroot', 'f10']):
        o = dict(sublimit=2, features=['STRUCTURE_REPORT'], callbacks=['guard', 'life', 'select'], act=['guard'], kinds=0x9e)
        fx = fixture('C16', fam, o, tag='report')
        for k in ((1,) if tier == 'quick' else (1, 2, 3)):
            L.append(fsm_case('C16', fx, 'report_imm%d' % k, ['P_C16S', 'P_C01', 'CB_KINDS=0x9e', 'CB_BUDGET=1', 'ENTRY=2', 'KIND=%d' % k], timeout=900 * T, witness=(k == 1)))
        # reset() is a step too: the report must follow it
        L.append(fsm_case('C16', fx, 'report_reset', ['P_C16S', 'P_C01', 'CB_KINDS=0x9e', 'CB_BUDGET=0', 'ENTRY=4'], timeout=600 * T, witness=False))
    mark_cover(L, ['c16.f5.imm1', 'c16.f5.update'])
    return L

def run(tier, seed):
    shutil.rmtree(os.path.join(BUILD, 'C16'), ignore_errors=True)
    return execute('C16', tier, seed, cases(tier), COMMON_ASSUME + [
        'the user logger (a subclass of the real LoggerInterfaceT) is reached through its vtable (type-erased thunks in the translation); two interleaved records are compared: ground truth written by the callback stubs and the decisions they take vs the logger\'s record',
        'clauses: every invoked user callback (incl. select()) is immediately preceded by recordMethod(state, method) and every recordMethod is followed by exactly that callback; every request / cancellation / select resolution issued in the step produces exactly one matching record (origin, kind, destination) before the next callback; a detached logger receives nothing; attach/detach not changing behaviour is the C15 logger pairs',
        'structure report: pre-state report consistent with the havocked configuration and arbitrary non-zero history of matching sign; after the step structure()[i].isActive == isActive(i) and activityHistory follows the saturating counter specification',
        'task/plan status and utility/random resolution records are exercised in the thorough tier only; state NAMES / prefixes are not part of the statement'])
