"""C08 Save then load into any instance reproduces active and resumable state"""
from props.fsmlib import *

def cases(tier):
    L = []
    fams = ['f5', 'f10', 'foroot', 'fw5', 'fo3c'] if tier == 'quick' else ['f5', 'f10', 'foroot', 'fsel', 'f3w', 'fpeer', 'fdeep', 'fo2', 'f12', 'fw5', 'fo3c']
    T = 1 if tier == 'quick' else 3
    for manual in (False, True):
        for fam in fams:
            o = dict(sublimit=2, manual=manual, features=['SERIALIZATION'], callbacks=['life'], act=[], kinds=0)
            fx = fixture('C08', fam, o, tag='man' if manual else 'auto')
            if not manual: L.append(tv_case('C08', fx))
            L.append(fsm_case('C08', fx, 'save_load_save', ['P_C08', 'MON_LIFE', 'ENTRY=10', 'CB_BUDGET=0'], timeout=600 * T, checks='basic', witness=True,
                              unwind_extra=[(r'^main', max(fx['T'].ns, (fx['T'].serial_bits + 7) // 8) + 2)]))
    return L

def run(tier, seed):
    shutil.rmtree(os.path.join(BUILD, 'C08'), ignore_errors=True)
    return execute('C08', tier, seed, cases(tier), COMMON_ASSUME + [
        'two arbitrary configurations under Inv (source and destination; Manual activation: each may be not activated) are solver variables; real save -> load -> save',
        'oracle: saving leaves the instance untouched; after load active and resumable forks equal the saved ones; exit for every state that stops being active, enter for every state that becomes active, nothing for states inactive on both sides (states active on both sides may be re-entered: not decided by the statement); the re-saved buffer is bit-identical; CBMC bounds/pointer checks are ON (all stream accesses inside the fixed-size buffer); the prior content of the buffer passed to save() is arbitrary',
        'SERIAL_BITS / buffer size come from the real type (Instance::SerialBuffer)'])
