"""C05 update/react/query reach exactly the active states in the documented order"""
from props.fsmlib import *

def cases(tier):
    L = []
    fams = ['f10', 'fo8x', 'foroot', 'fw5'] if tier == 'quick' else ['f5', 'f10', 'fo8x', 'foroot', 'fo2', 'fsel', 'f12', 'fdeep', 'fw5']
    T = 1 if tier == 'quick' else 3
    for bottomup in (False, True):
        for fam in fams:
            fam_ = 'fo3' if fam == 'fo8x' else fam
            o = dict(sublimit=2, bottomup=bottomup, callbacks=['update', 'react', 'query'], act=[], kinds=0)
            fx = fixture('C05', fam_, o, tag='bu' if bottomup else 'td')
            base = ['P_C05', 'CB_BUDGET=0']
            if not bottomup: L.append(fsm_case('C05', fx, 'update', base + ['ENTRY=1'], timeout=600 * T, witness=(fam == 'f10')))
            L.append(fsm_case('C05', fx, 'react', base + ['ENTRY=5'], timeout=600 * T, witness=(fam == 'f10'), cover=(fam == 'f10')))
            L.append(fsm_case('C05', fx, 'query', base + ['ENTRY=6'], timeout=600 * T, witness=(fam in ('f10', 'foroot')), cover=(fam == 'f10')))
        # injected handlers (StateT<Inj1, Inj2>): order relative to the state's own handler; no consumption here
        for fam in (['f5'] if tier == 'quick' else ['f5', 'f10']):
            o = dict(sublimit=2, bottomup=bottomup, inject=True, callbacks=['guard', 'life', 'select', 'update', 'react', 'query'], act=[], kinds=0)   # every handler overridden: two injections make inherited defaults ambiguous
            fx = fixture('C05', fam, o, tag='inj_' + ('bu' if bottomup else 'td'))
            base = ['P_C05', 'CB_BUDGET=0', 'NO_CONSUME']
            if not bottomup: L.append(fsm_case('C05', fx, 'update', base + ['ENTRY=1'], timeout=600 * T, witness=False))
            L.append(fsm_case('C05', fx, 'react', base + ['ENTRY=5'], timeout=600 * T, witness=False))
            L.append(fsm_case('C05', fx, 'query', base + ['ENTRY=6'], timeout=600 * T, witness=False))
    return L

def run(tier, seed):
    shutil.rmtree(os.path.join(BUILD, 'C05'), ignore_errors=True)
    return execute('C05', tier, seed, cases(tier), COMMON_ASSUME + [
        'reference trace (harness/fsm.c expect_phase) from the statement: pre*/main phases visit the active states head-before-sub-states (TopDown) or sub-states-before-head (BottomUp), post* phases the mirror image; orthogonal siblings in declaration order; a phase stops right after the state that consumes; every phase starts afresh; query() leaves the forks untouched',
        'the consuming state and phase are solver variables (any own handler of any active state may consume in any phase); callbacks issue no requests here (requests are C02/C04)',
        'injected handlers (StateT<Inj1,Inj2>): both run before the own handler on the way down (pre*/main of TopDown) and after it on the way up; their mutual order and consumption by injected handlers are not part of the statement and not asserted',
        'exactness: each (state, handler) is called at most once and the number of callbacks equals the length of the expected trace'])
