"""C17 Identifiers and structural metadata follow the declaration for every shape"""
from props.fsmlib import *

EXTRA = {
 'w7':   'C:Apex(A, B, C, D, E, F, G)',
 'w5n':  'S:Apex(A, R:B(B1,B2,B3,B4,B5), C)',
 'oo':   'C:Apex(A, O:Or(O:Oi(X1, C:Y(Y1,Y2)), C:P(P1,P2,P3)))',
 'hl':   'C*:Apex(C*:H1(A, B), O*:H2(C*:H3(C1,C2), D), E)',
 'o9':   'C:Apex(A, O:Or(L1,L2,L3,L4,L5,L6,L7,L8,L9), O:O2(M1, M2))',
 'deep4':'R:Apex(A, C:B(B1, S:Cc(C1, R:D(D1, D2, D3))))',
 'mix':  'O:Apex(C:P(P1, O:Po(X, C:Y(Y1,Y2))), R*:Q(Q1,Q2,Q3), L)',
}

def cases(tier):
    L = []
    fams = list(FAMILY) if tier == 'thorough' else ['f5', 'f10', 'foroot', 'fpeer', 'f3w', 'f12', 'fo8']
    extra = list(EXTRA) if tier == 'thorough' else ['w7', 'oo', 'hl', 'o9']
    for name in extra: FAMILY.setdefault('x_' + name, (EXTRA[name], 'extra shape for the numbering check'))
    for fam in fams + ['x_' + n for n in extra]:
        util = any(k in FAMILY[fam][0] for k in ('U:', 'N:', 'U*:', 'N*:'))
        feats = ['SERIALIZATION', 'PLANS']
        o = dict(features=feats, callbacks=['life'], act=[], kinds=0)
        fx = fixture('C17', fam, o)
        if fam in ('f5', 'f10', 'foroot'): L.append(tv_case('C17', fx))
        L.append(fsm_case('C17', fx, 'meta', ['P_C17', 'ENTRY=9', 'FROM_CONSTRUCTION_NOSTEP'], timeout=300, witness=True))
    return L

def run(tier, seed):
    shutil.rmtree(os.path.join(BUILD, 'C17'), ignore_errors=True)
    return execute('C17', tier, seed, cases(tier), [
        'quantifier "every machine structure": template metaprograms have no run-time input to make symbolic, so structures are ENUMERATED (the listed family incl. widths 3-9, nested and headless regions, orthogonal roots); per structure the state/region/fork index is a solver variable',
        'oracle: an independent computation of the depth-first numbering, counts, serialization bits, default task capacity, parent forks/prongs, bit-unit offsets, region heads and sizes from the structure term (vlib/genfx.py Tables) vs (i) the constexpr results of the real templates (stateId<>, regionId<>, counts) and (ii) the run-time tables the real deepRegister() builds in the constructed instance',
        'identifiers depend on the structure only: genfx names the states arbitrarily; the tables are computed from the shape alone',
        'outside the claim: structures not in the family; identifier-type limits (more than 255 regions etc.)'])
