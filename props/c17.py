"""C17 Identifiers and structural metadata follow the declaration for every shape"""
from props.fsmlib import *

EXTRA = {
 'w7':   'C:Apex(A, B, C, D, E, F, G)',
 'w5n':  'S:Apex(A, R:B(B1,B2,B3,B4,B5), C)',
 'oo':   'C:Apex(A, O:Or(O:Oi(X1, C:Y(Y1,Y2)), C:P(P1,P2,P3)))',
 'hl':   'C*:Apex(C*:H1(A, B), O*:H2(C*:H3(C1,C2), D), E)',
 'o9':   'C:Apex(A, O:Or(L1,L2,L3,L4,L5,L6,L7,L8,L9), O:O2(M1, M2))',
 'deep4':'R:Apex(A, C:B(B1, S:Cc(C1, R:D(D1, D2, D3))))',
 'mix':  'O:Apex(C:P(P1, O:Po(X, C:Y(Y1,Y2))), R*:Q(Q1,Q2,Q3), L)',
}

REJECTED = []   # (case name, replay path, descriptions): legal structures the real templates refuse to compile

def lib_rejects(e):
    """a compile error whose primary location is inside the library's own headers (a static_assert of the metadata
    arithmetic firing on a legal structure), as opposed to an error in the generated wrapper code (machinery fault)"""
    fe = getattr(e, 'first_error', '')
    return fe.startswith(os.path.realpath(REPO) + '/') or fe.startswith(REPO + '/')

def try_fixture(fam, o, tag=''):
    try:
        return fixture('C17', fam, o, tag)
    except Broken as e:
        if not lib_rejects(e): raise
        os.makedirs(REPLAYS, exist_ok=True)
        nm = 'c17.%s%s.compile' % (fam, ('_' + tag) if tag else '')
        dst = os.path.join(REPLAYS, 'C17_%s%s_compile.cpp' % (fam, ('_' + tag) if tag else ''))
        shutil.copyfile(e.cpp, dst)
        rp = dst[:-4] + '.json'
        json.dump(dict(property='C17', case=nm, kind='compile', source=dst, build=e.kw, first_error=e.first_error,
                       structure=FAMILY[fam][0]), open(rp, 'w'), indent=1)
        REJECTED.append((nm, rp, ['the real templates reject the legal structure %s at compile time: %s' % (FAMILY[fam][0], e.first_error[:300])]))
        return None

def cases(tier):
    L = []; del REJECTED[:]
    # regions with a single sub-state are outside the family: with serialization enabled the library refuses them at compile
    # time (static_assert BIT_WIDTH > 0 for a 1-wide region), which is a stated limitation rather than a wrong number
    fams = [f for f in FAMILY if f != 'fpn'] if tier == 'thorough' else ['f5', 'f10', 'foroot', 'fpeer', 'f3w', 'f12', 'fo8']
    extra = list(EXTRA) if tier == 'thorough' else ['w7', 'oo', 'hl', 'o9']
    for name in extra: FAMILY.setdefault('x_' + name, (EXTRA[name], 'extra shape for the numbering check'))
    for fam in fams + ['x_' + n for n in extra]:
        util = any(k in FAMILY[fam][0] for k in ('U:', 'N:', 'U*:', 'N*:'))
        feats = ['SERIALIZATION', 'PLANS']
        o = dict(features=feats, callbacks=['life'], act=[], kinds=0)
        if fam.startswith('x_'):
            # the same shape without plans (the per-region plan bit arrays carry compile-time index guards that may mask
            # a wrong region index behind a compile error): the tables are then compared by the solver
            fn = try_fixture(fam, dict(o, features=['SERIALIZATION']), 'np')
            if fn: L.append(fsm_case('C17', fn, 'meta', ['P_C17', 'ENTRY=9', 'FROM_CONSTRUCTION_NOSTEP'], timeout=300, witness=True))
        fx = try_fixture(fam, o)
        if not fx: continue
        if fam in ('f5', 'f10', 'foroot'): L.append(tv_case('C17', fx))
        L.append(fsm_case('C17', fx, 'meta', ['P_C17', 'ENTRY=9', 'FROM_CONSTRUCTION_NOSTEP'], timeout=300, witness=True))
    return L

def run(tier, seed):
    shutil.rmtree(os.path.join(BUILD, 'C17'), ignore_errors=True)
    cs = cases(tier)
    return execute('C17', tier, seed, cs, pre_violations=list(REJECTED), assumptions=[
        'quantifier "every machine structure": template metaprograms have no run-time input to make symbolic, so structures are ENUMERATED (the listed family incl. widths 3-9, nested and headless regions, orthogonal roots); per structure the state/region/fork index is a solver variable',
        'oracle: an independent computation of the depth-first numbering, counts, serialization bits, default task capacity, parent forks/prongs, bit-unit offsets, region heads and sizes from the structure term (vlib/genfx.py Tables) vs (i) the constexpr results of the real templates (stateId<>, regionId<>, counts) and (ii) the run-time tables the real deepRegister() builds in the constructed instance',
        'identifiers depend on the structure only: genfx names the states arbitrarily; the tables are computed from the shape alone',
        'a legal structure of the family that the real templates refuse to compile (error located in the library headers, e.g. a static_assert of the index arithmetic) is reported as a violation with the translation unit as replay; a compile error located in the generated wrapper code is a machinery fault (BROKEN)',
        'outside the claim: structures not in the family; regions with a single sub-state (rejected at compile time when serialization is enabled: static_assert BIT_WIDTH > 0); identifier-type limits (more than 255 regions etc.)'])
