"""C10 Behaviour is a function of inputs, callbacks and random numbers only"""
from props.fsmlib import *

def cases(tier):
    L = []
    T = 1 if tier == 'quick' else 3
    FAMILY.setdefault('fn4', ('N:Apex(A, B, C, D)', 'random root of width 4'))
    FAMILY.setdefault('fnr', ('C:Apex(A, N:N(N1,N2,N3))', 'random region below a composite root'))
    # (1) construction in differently pre-filled storage: built-in generator (the InstanceT<..RNGT..> specialisations), stub generator, no utility
    variants = [('fn4', dict(rng='builtin'), 'builtin_rng'), ('fn4', dict(rng='stub'), 'stub_rng'), ('f5', dict(), 'plain'), ('foroot', dict(), 'plain')]
    if tier == 'thorough': variants += [('fnr', dict(rng='builtin'), 'builtin_rng'), ('f10', dict(), 'plain'), ('f10', dict(features=['PLANS', 'TRANSITION_HISTORY', 'SERIALIZATION']), 'features'), ('f5', dict(manual=True), 'manual')]
    for fam, extra, tag in variants:
        o = dict(sublimit=2, callbacks=['guard', 'life', 'select', 'util'] if 'rng' in extra else ['guard', 'life', 'select'], act=[], kinds=0); o.update(extra)
        fx = fixture('C10', fam, o, tag=tag)
        L.append(fsm_case('C10', fx, 'construct_pair', ['P_C10', 'ENTRY=14', 'CB_BUDGET=0'], timeout=600 * T, witness=True,
                          unwind_extra=[(r'^main\.', 600)]))
    # (1b) built-in generator: a copy must not share the original's generator
    o = dict(sublimit=2, rng='builtin', callbacks=['life', 'util', 'select'], act=[], kinds=0)
    fx = fixture('C10', 'fn4', o, tag='builtin_copy')
    L.append(fsm_case('C10', fx, 'copy_shares_rng', ['P_C10', 'ENTRY=19', 'CB_BUDGET=0'], timeout=900 * T, witness=True))
    # (2) a copy continues exactly as the original (plans in flight included)
    for fam in (['f5'] if tier == 'quick' else ['f5', 'foroot', 'f10']):
        o = dict(sublimit=2, features=['PLANS', 'TRANSITION_HISTORY'], taskcap=3, callbacks=['guard', 'life', 'update1', 'select', 'plan'], act=['update'], kinds=0x0e)
        fx = fixture('C10', fam, o, tag='copy')
        L.append(tv_case('C10', fx))
        L.append(fsm_case('C10', fx, 'copy_update', ['P_C10', 'ENTRY=15', 'CB_BUDGET=%d' % (0 if tier == 'quick' else 1), 'CB_KINDS=0x0e'], timeout=1200 * T, witness=True,
                          unwind_extra=[(r'vf_plan_|PlanT|CPlanT|updatePlan', 5), (r'^main\.', 50)]))
    # (2b) plans with and without payloads outstanding at the moment of the copy: same plan contents, same requests and payloads
    # from the plan executor (update() minus processRequest())
    for fam in (['f5'] if tier == 'quick' else ['f5', 'fp3']):
        o = dict(sublimit=2, features=['PLANS'], taskcap=3, payload='u32', callbacks=['life', 'update1', 'select', 'plan'], act=['update'], kinds=0)
        fx = fixture('C10', fam, o, tag='copy_pl')
        L.append(fsm_case('C10', fx, 'copy_plans', ['P_C10', 'ENTRY=21', 'CB_BUDGET=0', 'CB_KINDS=0'], timeout=900 * T, witness=True,
                          unwind_extra=[(r'clearTasks', fx['T'].ns + 2), (r'vf_plan_|PlanT|CPlanT|updatePlan', 5), (r'^main\.', 50)]))
    return L

def run(tier, seed):
    shutil.rmtree(os.path.join(BUILD, 'C10'), ignore_errors=True)
    return execute('C10', tier, seed, cases(tier), COMMON_ASSUME + [
        'self-composition: (1) two storage objects whose every byte is an independent solver variable, the same real constructor on both (Automatic activation: first activation inside the constructor; built-in RNGT<float> generator and stub generator variants), callback answers are one fixed symbolic value per (state, callback): the callback sequences, fork arrays and isActive() answers must coincide; (2) an instance in any Inv state with up to two symbolic plan tasks is copy-constructed, update() runs on the original and on the copy with the same per-callback decisions (requests, succeed/fail): callback sequences, forks, plans and queues must coincide',
        'callback sequences are compared element-wise up to 48 callbacks per run',
        'outside the claim: address-dependent behaviour of user code; moves (move construction shares the copy path of CoreT)'])
