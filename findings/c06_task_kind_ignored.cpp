// C06 finding: the plan executor (FullControlT::updatePlan) issues changeTo() for EVERY task, whatever kind the task was
// created with: a task appended with plan.resume(origin, region) restarts the region by its declared strategy instead of
// resuming it.  Not repaired: 4 cases of the existing test suite pin the current behaviour (the switch-on-kind patch makes
// them fail), so a repair is not a small safe change.   exit 0 = a resume task resumes.
#define HFSM2_ENABLE_PLANS
#include <hfsm2/machine.hpp>
#include <cstdio>
using M = hfsm2::Machine;
#define S(s) struct s
using FSM = M::Root<S(Apex), S(A), M::Composite<S(B), S(B1), S(B2)>>;
#undef S
struct Apex : FSM::State {}; struct B : FSM::State {}; struct B1 : FSM::State {}; struct B2 : FSM::State {};
struct A : FSM::State { void update(FullControl& c) { c.succeed(); } };
int main() { FSM::Instance m;
  m.immediateChangeTo<B2>(); m.immediateChangeTo<A>();          // B2 is now resumable
  m.plan().resume<A, B>();                                       // when A succeeds: RESUME B
  m.update();
  if (!m.isActive<B>()) { std::puts("B not active"); return 2; }
  if (!m.isActive<B2>()) { std::puts("the 'resume' task was executed as changeTo(): B1 active instead of the resumable B2"); return 1; }
  return 0; }
