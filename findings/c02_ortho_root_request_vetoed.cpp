// C02 finding: on a machine with an ORTHOGONAL root, a request whose destination is the root itself (restart<Apex>(),
// changeTo<Apex>(), select<Apex>() ...) is silently vetoed whenever one of the root's sub-states is a plain state (or a
// region without its own request): S_::deepForwardExitGuard() returns false for leaf states, the orthogonal
// wideForwardExitGuard() ANDs it in, and approvedByGuards() fails although no guard cancelled.
// exit 0 = restart<Apex>() restarts the sub-regions.
#include <hfsm2/machine.hpp>
#include <cstdio>
using M = hfsm2::Machine;
#define S(s) struct s
using FSM = M::OrthogonalRoot<S(Apex), M::Composite<S(P), S(P1), S(P2)>, S(L)>;
#undef S
struct Apex : FSM::State {}; struct P : FSM::State {}; struct P1 : FSM::State {}; struct P2 : FSM::State {}; struct L : FSM::State {};
int main() { FSM::Instance m; m.immediateChangeTo<P2>();
  if (!m.isActive<P2>()) { std::puts("setup failed"); return 2; }
  m.immediateRestart<Apex>();
  if (!m.isActive<P1>()) { std::puts("restart<Apex>() was silently vetoed: P2 still active"); return 1; } return 0; }
