// C02 finding (F13): restart<P>() / changeTo<P>() on an ACTIVE region P that has only orthogonal ancestors (orthogonal root)
// does nothing - P is not re-targeted (with a composite parent the same request restarts P).
// exit 0 = P1 active after restart<P>().
#include <hfsm2/machine.hpp>
#include <cstdio>
using M = hfsm2::Machine;
#define S(s) struct s
using FSM = M::OrthogonalRoot<S(Apex), M::Composite<S(P), S(P1), S(P2)>, M::Composite<S(Q), S(Q1), S(Q2)>>;
#undef S
struct Apex : FSM::State {}; struct O : FSM::State {}; struct P : FSM::State {}; struct P1 : FSM::State {}; struct P2 : FSM::State {}; struct Q : FSM::State {}; struct Q1 : FSM::State {}; struct Q2 : FSM::State {};
int main() { FSM::Instance m; m.immediateChangeTo<P2>(); m.immediateRestart<P>();
  if (!m.isActive<P1>()) { std::puts("restart<P>() ignored: P2 still active"); return 1; } return 0; }
