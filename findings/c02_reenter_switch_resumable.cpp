// C02 finding: re-targeting an ACTIVE region so that it switches its sub-state in place (C_::deepReenter, e.g.
// restart<B>() while B/B2 is active) does not remember the sub-state it leaves: nothing (or a stale prong) is
// resumable afterwards, unlike every other way of leaving B2.   exit 0 = B2 is resumable after the switch.
#include <hfsm2/machine.hpp>
#include <cstdio>
using M = hfsm2::Machine;
#define S(s) struct s
using FSM = M::Root<S(Apex), S(A), M::Composite<S(B), S(B1), S(B2)>>;
#undef S
struct Apex : FSM::State {}; struct A : FSM::State {}; struct B : FSM::State {}; struct B1 : FSM::State {}; struct B2 : FSM::State {};
int main() { FSM::Instance m; m.immediateChangeTo<B2>(); m.immediateRestart<B>();
  if (!m.isActive<B1>()) { std::puts("B1 not active after restart<B>"); return 2; }
  if (!m.isResumable<B2>()) { std::puts("restart<B>() left B2 but B2 is not resumable"); return 1; }
  return 0; }
