// C01/C02 finding: a headless region (SelectablePeers<...>, or any ...Peers<> region resolved by select) has no head
// to define select(); the wrapper for the anonymous head returns INVALID_PRONG instead of the default 0 that a headed
// region without its own select() gets. Entering such a region by its strategy leaves it active with no active sub-state.
// exit 0 = the region gets an active sub-state.
#include <hfsm2/machine.hpp>
#include <cstdio>
using M = hfsm2::Machine;
#define S(s) struct s
using FSM = M::Root<S(Apex), S(A), M::Composite<S(B), M::SelectablePeers<S(S1), S(S2)>, S(B2)>>;
#undef S
struct Apex : FSM::State {}; struct A : FSM::State {}; struct B : FSM::State {}; struct S1 : FSM::State {}; struct S2 : FSM::State {}; struct B2 : FSM::State {};
int main() { FSM::Instance m; m.immediateChangeTo<B>();      // B -> first sub-state = the headless selectable region
  if (!m.isActive<B>()) { std::puts("B not active"); return 2; }
  if (!(m.isActive<S1>() || m.isActive<S2>() || m.isActive<B2>())) { std::puts("B active, its headless selectable sub-region entered with no active sub-state"); return 1; }
  return 0; }
