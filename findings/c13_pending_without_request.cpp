// C13 finding (F6, broader than first seen): the pending queries compare the requested prong of a state's nearest
// composite fork with the active one without testing that anything IS requested.  With nothing pending at all
// (INVALID requested prong) isPendingExit() is true for every active state and isPendingChange() for every state
// under an active region; inside guards the same holds for every region the pending request does not re-target.
// exit 0 = all three queries are false while nothing is pending.
#include <hfsm2/machine.hpp>
#include <cstdio>
using M = hfsm2::Machine;
#define S(s) struct s
using FSM = M::Root<S(Apex), S(A), M::Composite<S(B), S(B1), S(B2)>>;
#undef S
struct Apex : FSM::State {}; struct A : FSM::State {}; struct B : FSM::State {}; struct B1 : FSM::State {}; struct B2 : FSM::State {};
int main() { FSM::Instance m; int bad = 0;   // A active, nothing requested
  if (m.isPendingExit<A>())   { std::puts("isPendingExit<A>() == true with nothing pending");   bad = 1; }
  if (m.isPendingChange<A>()) { std::puts("isPendingChange<A>() == true with nothing pending"); bad = 1; }
  if (m.isPendingEnter<B>())  { std::puts("isPendingEnter<B>() == true with nothing pending");  bad = 1; }
  return bad; }
