// C12/C01 finding (F5): C_::resolveRandom computes cursor = random * sum in float; for random close to 1 the product can
// round UP to sum, every "cursor >= utility" test then succeeds, the walk runs off the end and INVALID_PRONG is returned:
// the random region is entered with no active sub-state.   exit 0 = a sub-state is always chosen.
#define HFSM2_ENABLE_UTILITY_THEORY
#include <hfsm2/machine.hpp>
#include <cstdio>
struct Rng { float next() { return 0.99999994f; } };           // largest float below 1
using Config = hfsm2::Config::RandomT<Rng>;
using M = hfsm2::MachineT<Config>;
#define S(s) struct s
using FSM = M::Root<S(Apex), S(A), M::Random<S(N), S(N1), S(N2), S(N3)>>;
#undef S
struct Apex : FSM::State {}; struct A : FSM::State {}; struct N : FSM::State {};
struct N1 : FSM::State { Utility utility(const Control&) { return 0.18f; } };
struct N2 : FSM::State { Utility utility(const Control&) { return 0.78f; } };
struct N3 : FSM::State { Utility utility(const Control&) { return 0.94f; } };
int main() { Rng rng; FSM::Instance m{rng}; m.immediateRandomize<N>();
  if (!m.isActive<N>()) { std::puts("N not active"); return 2; }
  if (!(m.isActive<N1>() || m.isActive<N2>() || m.isActive<N3>())) { std::printf("random region N active with no active sub-state (activeSubState = %d)\n", (int)m.activeSubState<N>()); return 1; }
  return 0; }
