// C01/C02 finding (F7): select() - or changeTo() into a Selectable region - that lands on a sub-state which is
// itself a region is not resolved downwards: the nested region is entered with NO active sub-state
// (activeSubState() == INVALID while the region is active, none of its sub-states reported active).
// exit 0 = the configuration is well-formed.
#include <hfsm2/machine.hpp>
#include <cstdio>
using M = hfsm2::Machine;
#define S(s) struct s
using FSM = M::Root<S(Apex), S(A), M::Selectable<S(Sx), S(S1), M::Composite<S(T), S(T1), S(T2)>>>;
#undef S
struct Apex : FSM::State {}; struct A : FSM::State {}; struct S1 : FSM::State {}; struct T : FSM::State {}; struct T1 : FSM::State {}; struct T2 : FSM::State {};
struct Sx : FSM::State { hfsm2::Prong select(const Control&) { return 1; } };
static int check(FSM::Instance& m, const char* what) {
  if (m.isActive<T>() && !(m.isActive<T1>() || m.isActive<T2>())) { std::printf("%s: region T active, activeSubState(T)=%d, no sub-state active\n", what, (int)m.activeSubState<T>()); return 1; }
  return 0; }
int main() { int bad = 0;
  { FSM::Instance m; m.immediateSelect<Sx>();   bad |= check(m, "select<Sx>"); }
  { FSM::Instance m; m.immediateChangeTo<Sx>(); bad |= check(m, "changeTo<Sx>"); }
  return bad; }
