// C08 finding (F1): load() does not reproduce the saved resumable sub-states when the loading instance has to leave
// states: the exits performed by load() overwrite the freshly loaded resumable prongs with what the LOADING instance
// happened to have active, and re-saving yields a different buffer.   exit 0 = round trip exact.
#define HFSM2_ENABLE_SERIALIZATION
#include <hfsm2/machine.hpp>
#include <cstdio>
using M = hfsm2::Machine;
#define S(s) struct s
using FSM = M::Root<S(Apex), S(A), M::Resumable<S(B), S(B1), S(B2)>>;
#undef S
struct Apex : FSM::State {}; struct A : FSM::State {}; struct B : FSM::State {}; struct B1 : FSM::State {}; struct B2 : FSM::State {};
int main() {
  FSM::Instance src, dst;                 // src: A active, nothing resumable
  dst.immediateChangeTo<B2>();            // dst: B/B2 active
  FSM::Instance::SerialBuffer b1, b2;
  src.save(b1); dst.load(b1); dst.save(b2);
  int bad = 0;
  if (!dst.isActive<A>()) { std::puts("A not active after load"); bad = 1; }
  if (dst.isResumable<B>() || dst.isResumable<B2>()) { std::puts("loaded instance reports B/B2 resumable, the saved one had nothing resumable"); bad = 1; }
  if (b1 != b2) { std::puts("re-saved buffer differs from the loaded one"); bad = 1; }
  return bad; }
