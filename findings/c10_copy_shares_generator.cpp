// C10/C11 observation (F4): a COPY of an instance that uses the built-in generator (RNGT<float>) keeps a reference to
// the generator object INSIDE THE ORIGINAL (CoreT stores RNG& and the defaulted copy constructors copy the reference):
// original and copy draw from ONE shared stream - what the original does depends on what its copy does - and the
// copy's reference dangles once the original is gone.   exit 0 = the original's choices do not depend on its copy.
#define HFSM2_ENABLE_UTILITY_THEORY
#include <hfsm2/machine.hpp>
#include <cstdio>
using M = hfsm2::Machine;
#define S(s) struct s
using FSM = M::RandomRoot<S(Apex), S(A), S(B), S(C), S(D), S(E)>;
#undef S
struct Apex : FSM::State {}; struct A : FSM::State {}; struct B : FSM::State {}; struct C : FSM::State {}; struct D : FSM::State {}; struct E : FSM::State {};
int main() { int alone[8], shared[8];
  { FSM::Instance m; for (int i = 0; i < 8; ++i) { m.immediateRandomize<Apex>(); alone[i] = m.activeSubState<Apex>(); } }
  { FSM::Instance m; FSM::Instance copy{m};
    for (int i = 0; i < 8; ++i) { copy.immediateRandomize<Apex>(); m.immediateRandomize<Apex>(); shared[i] = m.activeSubState<Apex>(); } }
  for (int i = 0; i < 8; ++i) if (alone[i] != shared[i]) { std::printf("step %d: the original chose %d alone but %d while its copy was also drawing\n", i, alone[i], shared[i]); return 1; }
  return 0; }
