// does a succeed() of an enclosing region's head leak into the nested plan-owning region's head status?
#define HFSM2_ENABLE_PLANS
#include <hfsm2/machine.hpp>
#include <cstdio>
using M = hfsm2::MachineT<hfsm2::Config>;
struct Apex; struct A; struct P; struct G; struct G1; struct G2; struct Q;
using FSM = M::PeerRoot<A, M::Composite<P, M::Composite<G, G1, G2>, Q>>;
static bool p_succeeds = false;
struct A  : FSM::State {};
struct P  : FSM::State { void update(FullControl& c) { if (p_succeeds) c.succeed(); } };
struct G  : FSM::State { int ok = 0, failed = 0; void planSucceeded(FullControl&) { ++ok; } void planFailed(FullControl&) { ++failed; } };
struct G1 : FSM::State { void update(FullControl& c) { c.succeed(); } };
struct G2 : FSM::State {};
struct Q  : FSM::State {};
int run(bool ps) {
  p_succeeds = ps;
  FSM::Instance m;
  m.immediateChangeTo<G1>();
  m.access<G>();
  auto plan = m.plan<G>();
  plan.change<G1, G2>();
  m.update();
  printf("P head succeeds=%d: G2 active=%d, G1 active=%d, plan has tasks=%d\n", ps, m.isActive<G2>(), m.isActive<G1>(), (bool) m.plan<G>());
  return m.isActive<G2>();
}
int main() { int a = run(false), b = run(true); return (a && b) ? 0 : 1; }
