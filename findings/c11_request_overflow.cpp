// C11 finding: queuing more transitions than the request queue holds (capacity = number of composite regions)
// overruns it: DynamicArrayT::emplace writes _items[_count++] guarded only by a disabled assertion, so the extra
// Transition lands in whatever follows the queue inside the instance (here: later members / the guard band).
// exit 0 = excess requests rejected, state intact.
#include <hfsm2/machine.hpp>
#include <cstdio>
#include <cstring>
using M = hfsm2::Machine;
#define S(s) struct s
using FSM = M::Root<S(Apex), S(A), S(B)>;   // one composite region -> queue capacity 1
#undef S
struct Apex : FSM::State {}; struct A : FSM::State {}; struct B : FSM::State {};
int main() { struct { FSM::Instance m; unsigned char tail[64]; } box; memset(box.tail, 0x11, sizeof box.tail);
  unsigned char before[sizeof box]; memcpy(before, &box, sizeof box);
  for (int i = 0; i < 6; ++i) box.m.changeTo<B>();     // 5 more than the queue holds
  int n = 0; const unsigned char* p = reinterpret_cast<const unsigned char*>(&box);
  for (size_t i = sizeof(FSM::Instance); i < sizeof box; ++i) if (p[i] != before[i]) n++;
  if (n) printf("%d byte(s) past the instance were overwritten by queued requests\n", n);
  box.m.update();
  if (!box.m.isActive<B>()) { printf("B not active after the burst\n"); n++; }
  return n != 0; }
