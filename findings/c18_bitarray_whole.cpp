// C18 findings on BitArrayT whole-array operations (pinned tree), public detail API only:
//  (1) boolean operator & returns false as soon as ONE storage unit has an empty intersection, so for capacities > 8
//      two sets that do intersect are reported as disjoint;
//  (2) set() also sets the padding bits beyond CAPACITY in the last unit: after set() and clearing every index the
//      array is not empty(), and it compares != to an array in which every index was set individually.
#include <hfsm2/machine.hpp>
#include <cstdio>
int main() {
    using BA = hfsm2::detail::BitArrayT<9>;
    int bad = 0;
    { BA a, b; a.set(8); b.set(8); if (!(a & b)) { std::puts("(1) {8} & {8} reported as not intersecting"); bad |= 1; } }
    { BA a; a.set(); for (unsigned i = 0; i < 9; ++i) a.clear(i); if (!a.empty()) { std::puts("(2a) set(); clear(i) for all i; empty() == false"); bad |= 2; } }
    { BA a, b; a.set(); for (unsigned i = 0; i < 9; ++i) b.set(i); if (a != b) { std::puts("(2b) set() != {0..8}"); bad |= 4; } }
    return bad;
}
