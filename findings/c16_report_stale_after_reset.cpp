// structure report after reset(): does structure()[i].isActive still mirror isActive(i)?
#define HFSM2_ENABLE_STRUCTURE_REPORT
#include <hfsm2/machine.hpp>
#include <cstdio>
using M = hfsm2::MachineT<hfsm2::Config>;
struct Apex; struct A; struct B;
using FSM = M::Root<Apex, A, B>;
struct Apex : FSM::State {}; struct A : FSM::State {}; struct B : FSM::State {};
int main() {
  FSM::Instance m;
  m.immediateChangeTo<B>();
  int bad = 0;
  m.reset();
  const auto& st = m.structure();
  for (unsigned i = 0; i < st.count(); ++i) printf("structure[%u] %s active=%d\n", i, "", (int)st[i].isActive);
  printf("isActive<A>=%d isActive<B>=%d\n", m.isActive<A>(), m.isActive<B>());
  // structure(): [0]=Apex,[1]=A,[2]=B
  if (st[1].isActive != m.isActive<A>() || st[2].isActive != m.isActive<B>()) bad = 1;
  printf(bad ? "MISMATCH after reset()\n" : "ok\n");
  return bad;
}
