// C11 finding: schedule(ROOT) on a machine WITHOUT orthogonal regions writes outside the instance.
// RegistryT<...,0,0,...>::requestScheduled indexes compoResumable[parent.forkId - 1] with the root's invalid fork id
// (INT16_MIN), laundered through a uint8_t index: one byte is written ~238 bytes past a 44-byte instance.
// ASan/UBSan are silent; a guard band shows it.  exit 0 = no byte outside the instance changed.
#include <hfsm2/machine.hpp>
#include <cstdio>
#include <cstring>
using M = hfsm2::Machine;
#define S(s) struct s
using FSM = M::Root<S(Apex), S(A), S(B)>;
#undef S
struct Apex : FSM::State {}; struct A : FSM::State {}; struct B : FSM::State {};
int main() { struct { unsigned char head[300]; FSM::Instance m; unsigned char tail[300]; } box;
  memset(box.head, 0x11, sizeof box.head); memset(box.tail, 0x11, sizeof box.tail);
  box.m.schedule<Apex>(); box.m.update();
  int n = 0;
  for (size_t i = 0; i < 300; ++i) { if (box.head[i] != 0x11) { printf("byte %zu BEFORE the instance changed\n", 300 - i); n++; } if (box.tail[i] != 0x11) { printf("byte %zu past the instance (size %zu) changed: 11 -> %02x\n", i, sizeof(FSM::Instance), box.tail[i]); n++; } }
  return n != 0; }
