// C20 finding: FloatRandomT<4>/IntRandomT<4>::uint64() = widen(uint32(), uint32()) - the two draws are
// unsequenced function arguments, so the 64-bit stream (and float64()) depends on the compiler:
// g++ evaluates right-to-left, clang++ left-to-right.  Build with both and compare the output.
#define HFSM2_ENABLE_UTILITY_THEORY
#include <hfsm2/machine.hpp>
#include <cstdio>
int main() {
    hfsm2::detail::FloatRandomT<4> f{1234u}; hfsm2::detail::IntRandomT<4> i{1234u};
    std::printf("%016llx %016llx\n", (unsigned long long)f.uint64(), (unsigned long long)i.uint64());
}
