// C10 finding (F3): with the built-in generator (RNGT<float>) and Automatic activation, InstanceT's base RC_ (whose
// constructor performs the first activation and draws from the generator) is constructed BEFORE the RNGT base it
// references: the first random choice is made with whatever bytes the storage held.
// exit 0 = two instances constructed in differently pre-filled storage make the same initial choice.
#define HFSM2_ENABLE_UTILITY_THEORY
#include <hfsm2/machine.hpp>
#include <cstdio>
#include <cstring>
#include <new>
using M = hfsm2::Machine;
#define S(s) struct s
using FSM = M::RandomRoot<S(Apex), S(A), S(B), S(C), S(D)>;
#undef S
struct Apex : FSM::State {}; struct A : FSM::State {}; struct B : FSM::State {}; struct C : FSM::State {}; struct D : FSM::State {};
static int first_choice(unsigned char fill) {
  alignas(16) static unsigned char mem[sizeof(FSM::Instance)]; std::memset(mem, fill, sizeof mem);
  FSM::Instance* m = new (mem) FSM::Instance(); int r = m->activeSubState<Apex>(); m->~InstanceT(); return r; }
int main() { int a = first_choice(0x00), b = first_choice(0xff), c = first_choice(0x5a);
  if (a != b || b != c) { std::printf("initial random choice depends on prior storage content: %d %d %d\n", a, b, c); return 1; } return 0; }
