#include <hfsm2/machine.hpp>
#include <cstdio>
using M = hfsm2::MachineT<hfsm2::Config>;
struct Apex; struct A; struct Sx; struct S1; struct T; struct T1; struct T2;
using FSM = M::Root<Apex, A, M::Selectable<Sx, S1, M::Composite<T, T1, T2>>>;
struct Apex : FSM::State {}; struct A : FSM::State {};
struct Sx : FSM::State { hfsm2::Prong select(const Control&) { return 1; } };
struct S1 : FSM::State {}; struct T : FSM::State {}; struct T1 : FSM::State {}; struct T2 : FSM::State {};
// a batch [changeTo<Apex>(), select<T1>() or changeTo<T1>()]: the later request must win (C02)
int main() {
  FSM::Instance m;
  m.immediateChangeTo<T2>();
  printf("pre: T2=%d\n", m.isActive<T2>());
  m.changeTo<Apex>(); m.select<T1>();
  m.update();
  printf("after changeTo<Apex>; select<T1>: A=%d Sx=%d T=%d T1=%d T2=%d\n", m.isActive<A>(), m.isActive<Sx>(), m.isActive<T>(), m.isActive<T1>(), m.isActive<T2>());
  FSM::Instance n; n.immediateChangeTo<T2>();
  n.changeTo<Apex>(); n.changeTo<T1>(); n.update();
  printf("after changeTo<Apex>; changeTo<T1>: A=%d T1=%d\n", n.isActive<A>(), n.isActive<T1>());
  return 0;
}
