// C05 finding (F11): in an orthogonal region whose sub-states are plain states, a later sibling still receives
// react() (and preReact/postReact/query) after an earlier sibling consumed the event.
// exit 0 = the phase stops at the consuming state.
#include <hfsm2/machine.hpp>
#include <cstdio>
struct Ev {};
using M = hfsm2::Machine;
#define S(s) struct s
using FSM = M::Root<S(Apex), M::Orthogonal<S(O), S(L1), S(L2)>, S(X)>;
#undef S
static int l2_reacted, l2_queried;
struct Apex : FSM::State {}; struct O : FSM::State {}; struct X : FSM::State {};
struct L1 : FSM::State { void react(const Ev&, EventControl& c) { c.consumeEvent(); } void query(Ev&, ConstControl& c) const { c.consumeQuery(); } };
struct L2 : FSM::State { void react(const Ev&, EventControl&) { ++l2_reacted; } void query(Ev&, ConstControl&) const { ++l2_queried; } };
int main() { FSM::Instance m; Ev e; m.react(e); m.query(e);
  if (l2_reacted) std::puts("L2::react ran although its sibling L1 consumed the event");
  if (l2_queried) std::puts("L2::query ran although its sibling L1 consumed the query");
  return (l2_reacted || l2_queried) ? 1 : 0; }
