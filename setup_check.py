#!/usr/bin/env python3
"""setup: nothing to build (python + pre-installed clang-14/cbmc/gcc); verifies the tool chain is present."""
import shutil, sys, subprocess
missing = [t for t in ('clang++-14', 'cbmc', 'gcc', 'g++', 'kissat', 'cvc5') if not shutil.which(t)]
if missing: print('missing tools:', missing); sys.exit(1)
print(subprocess.run(['cbmc', '--version'], stdout=subprocess.PIPE, universal_newlines=True).stdout.strip())
print('setup ok')
